import importlib
import os
import sys

HERE = os.path.dirname(os.path.dirname(os.path.abspath(__file__)))
sys.path.insert(0, HERE)


def main():
    args = sys.argv[1:]
    if not args:
        print("usage: check <Cxx> [--tier quick|thorough] [--replay file] [filters]")
        return 2
    pid = args.pop(0).upper()
    if "--tier" in args:
        i = args.index("--tier")
        os.environ["VERIF_TIER"] = args[i + 1]
        del args[i:i + 2]
    if "--replay" in args:
        i = args.index("--replay")
        from checks import common
        ok, text = common.run_replay(args[i + 1])
        print(text)
        return 1 if ok else 0
    if args:
        os.environ["VERIF_PARTIAL_RUN"] = "1"       # name filters: a development run, its evidence must not replace the full one
    mod = importlib.import_module("checks." + pid.lower())
    return mod.main(args)


if __name__ == "__main__":
    sys.exit(main())
