"""C09 harnesses: programs written with the oblivious block API on secret conditions vs the same program with native
control flow on the plain values."""
from .catalogue import Entry
from symtrace.concrete import lincomb_of


def val(o):
    lc = lincomb_of(o)
    return lc.value if lc is not None else o


LAST_WIRES = []


def compare(obs, ctx, native):
    del LAST_WIRES[:]
    for nm in sorted(native):
        if nm in ctx.vals:
            LAST_WIRES.extend(v for v in _flat(ctx.vals[nm]) if lincomb_of(v) is not None)
    for nm, want in native.items():
        if nm not in ctx.vals:
            obs.append(("variable %s exists after the construct" % nm, False))
            continue
        obs.append(("variable %s ends with the value native control flow gives" % nm, ("eq", val(ctx.vals[nm]), want)))
    obs.append(("no other variable appears", sorted(ctx.vals) == sorted(native)))


def _flat(o):
    if isinstance(o, (list, tuple)):
        for x in o:
            yield from _flat(x)
    elif hasattr(o, "arr"):
        yield from _flat(o.arr)
    else:
        yield o


def bitcond(k, nm, kind):
    """secret condition with the truth value of input nm (0/1): as a plain secret or as a comparison result"""
    if kind == "plain":
        return k.S(nm)
    if kind == "bool":
        return k.B(nm)
    return k.S(nm) > 0          # comparison result (LinCombBool)


def p_if_else(k, kind):
    br = k.br
    _ = br.BranchingValues()
    _.x = k.S("x")
    _.y = 7
    if br._if(bitcond(k, "c", kind), ctx=_):
        _.x = _.x + 3
    if br._else(ctx=_):
        _.x = _.x * 2
    br._endif(ctx=_)
    c, x = k.v("c"), k.v("x")
    nat = {"x": (x + 3) if c else (x * 2), "y": 7}
    obs = []
    compare(obs, _, nat)
    return obs


def p_if_only(k, kind):
    br = k.br
    _ = br.BranchingValues()
    _.x = k.S("x")
    _.u = k.S("y")
    if br._if(bitcond(k, "c", kind), ctx=_):
        _.x = _.x * _.u
    br._endif(ctx=_)
    c, x, y = k.v("c"), k.v("x"), k.v("y")
    nat = {"x": (x * y) if c else x, "u": y}
    obs = []
    compare(obs, _, nat)
    return obs


def p_elif(k, kind):
    br = k.br
    _ = br.BranchingValues()
    _.x = k.S("x")
    if br._if(bitcond(k, "c", kind), ctx=_):
        _.x = 10
        _.z = _.x + 1
    if br._elif(lambda: bitcond(k, "d", kind), ctx=_):
        _.x = _.x + 5
        _.z = 2
    if br._else(ctx=_):
        _.z = _.x - 1
    br._endif(ctx=_)
    c, d, x = k.v("c"), k.v("d"), k.v("x")
    if c:
        nat = {"x": 10, "z": 11}
    elif d:
        nat = {"x": x + 5, "z": 2}
    else:
        nat = {"x": x, "z": x - 1}
    obs = []
    compare(obs, _, nat)
    return obs


def p_elif2(k, kind):
    """a chain with two _elif parts and an _else: the 'nothing taken so far' condition must accumulate"""
    br = k.br
    _ = br.BranchingValues()
    _.x = k.S("x")
    if br._if(bitcond(k, "c", kind), ctx=_):
        _.x = 10
    if br._elif(lambda: bitcond(k, "d", kind), ctx=_):
        _.x = 20
    if br._elif(lambda: bitcond(k, "e", kind), ctx=_):
        _.x = 30
    if br._else(ctx=_):
        _.x = 40
    br._endif(ctx=_)
    c, d, e = k.v("c"), k.v("d"), k.v("e")
    nat = {"x": 10 if c else (20 if d else (30 if e else 40))}
    obs = []
    compare(obs, _, nat)
    return obs


def p_elif_cmp(k, kind):
    """the _elif condition is an ordering comparison on secrets (guard-sensitive): it belongs to the state before the _if"""
    br = k.br
    _ = br.BranchingValues()
    x = k.S("x")
    _.r = 0
    if br._if(bitcond(k, "c", kind), ctx=_):
        _.r = 1
    if br._elif(lambda: x < 5, ctx=_):
        _.r = 2
    if br._else(ctx=_):
        _.r = 3
    br._endif(ctx=_)
    c, xv = k.v("c"), k.v("x")
    nat = {"r": 1 if c else (2 if xv < 5 else 3)}
    obs = []
    compare(obs, _, nat)
    return obs


def p_lazy_cmp_branches(k, kind):
    """lazy selection whose two callable branches both contain guard-sensitive operations"""
    br = k.br
    c = k.B("c") if kind != "cmp" else (k.S("c") > 0)
    x = k.S("x"); y = k.S("y")
    r = br.if_then_else(c, lambda: br.if_then_else(x < y, x, y), lambda: br.if_then_else(x < y, y, x))
    del LAST_WIRES[:]
    LAST_WIRES.append(r)
    cv, xv, yv = k.v("c"), k.v("x"), k.v("y")
    mn = xv if xv < yv else yv
    mx = yv if xv < yv else xv
    return [("lazy selection with comparing branches returns the value native control flow gives", ("eq", val(r), mn if cv else mx))]


def p_nested(k, kind):
    br = k.br
    _ = br.BranchingValues()
    _.x = k.S("x")
    _.n = 0
    if br._if(bitcond(k, "c", kind), ctx=_):
        _.n = 1
        if br._if(bitcond(k, "d", kind), ctx=_):
            _.x = _.x + 100
            _.n = 2
        if br._else(ctx=_):
            _.x = _.x - 100
        br._endif(ctx=_)
    if br._else(ctx=_):
        _.x = -_.x
    br._endif(ctx=_)
    c, d, x = k.v("c"), k.v("d"), k.v("x")
    if c:
        nat = {"x": x + 100, "n": 2} if d else {"x": x - 100, "n": 1}
    else:
        nat = {"x": -x, "n": 0}
    obs = []
    compare(obs, _, nat)
    return obs


def p_nested_op(k, kind):
    """an operation that is only valid on the data the OUTER condition admits, inside an inner block"""
    br = k.br
    _ = br.BranchingValues()
    x = k.S("x")
    _.b = 0
    if br._if(x < 8, ctx=_):
        if br._if(bitcond(k, "c", "plain" if kind == "plain" else "cmp"), ctx=_):
            bits = x.to_bits(3)            # would be rejected for x >= 8: must stay guarded by the outer condition too
            _.b = bits[0] + bits[2] * 2
        br._endif(ctx=_)
    br._endif(ctx=_)
    xv, c = k.v("x"), k.v("c")
    nat = {"b": ((xv & 1) + ((xv >> 2) & 1) * 2) if (xv < 8 and c) else 0}
    obs = []
    compare(obs, _, nat)
    return obs


def p_matrix(k, kind):
    """a variable holding a list of lists, modified in place inside branches"""
    br = k.br
    _ = br.BranchingValues()
    _.m = [[1, k.S("x")], [3, 4]]
    _.l = [5, 6]
    if br._if(bitcond(k, "c", kind), ctx=_):
        _.m[0][1] = 9
        _.m[1][0] = _.m[1][0] + 10
        _.l[1] = 7
    if br._else(ctx=_):
        _.m[1][1] = 0
    br._endif(ctx=_)
    c, x = k.v("c"), k.v("x")
    nat = {"m": [[1, 9], [13, 4]] if c else [[1, x], [3, 0]], "l": [5, 7] if c else [5, 6]}
    obs = []
    for nm, want in nat.items():
        got = _.vals[nm]
        flatg = [val(v) for row in got for v in (row if isinstance(row, list) else [row])]
        flatw = [v for row in want for v in (row if isinstance(row, list) else [row])]
        obs.append(("variable %s keeps its shape" % nm, len(flatg) == len(flatw)))
        for i, (g, w) in enumerate(zip(flatg, flatw)):
            obs.append(("variable %s element %d ends with the value native control flow gives" % (nm, i), ("eq", g, w)))
    return obs


def p_while(k, kind):
    br = k.br
    _ = br.BranchingValues()
    _.w = 0
    _.s = k.S("x")
    n = k.S("n")
    i = 0
    while br._while(i != n, ctx=_) and i != 3:
        _.w = i + 1
        _.s = _.s + i
        i += 1
        br._breakif(i == k.S("b"), ctx=_)
    br._endwhile(ctx=_)
    nv, bv, x = k.v("n"), k.v("b"), k.v("x")
    w, s, j = 0, x, 0
    while j != nv and j != 3:
        w = j + 1
        s = s + j
        j += 1
        if j == bv:
            break
    nat = {"w": w, "s": s}
    obs = []
    compare(obs, _, nat)
    return obs


def p_for(k, kind):
    br = k.br
    _ = br.BranchingValues()
    _.sum = 0
    _.last = -1
    for i in br._range(k.S("n"), max=3, ctx=_):
        _.sum = _.sum + i + k.S("x")
        _.last = i
    br._endfor(ctx=_)
    nv, x = k.v("n"), k.v("x")
    s, last = 0, -1
    for i in range(3):
        if i >= nv:            # native: for i in range(nv) -- empty when the bound is not above the start
            break
        s = s + i + x
        last = i
    nat = {"sum": s, "last": last}
    obs = []
    compare(obs, _, nat)
    return obs


def p_while_pubbreak(k, kind):
    """break condition that is a plain Python bool / int (computed from the public loop counter)"""
    br = k.br
    _ = br.BranchingValues()
    _.w = 0
    _.s = k.S("x")
    n = k.S("n")
    i = 0
    while br._while(i != n, ctx=_) and i != 4:
        _.w = i + 1
        _.s = _.s + i
        i += 1
        br._breakif((i == 2) if kind == "cmp" else int(i == 2), ctx=_)
    br._endwhile(ctx=_)
    nv, x = k.v("n"), k.v("x")
    w, s, j = 0, x, 0
    while j != nv and j != 4:
        w = j + 1
        s = s + j
        j += 1
        if j == 2:
            break
    obs = []
    compare(obs, _, {"w": w, "s": s})
    return obs


def p_for_break(k, kind):
    """secret-bounded for loop left early: by a secret condition (kind cmp) or a public one (kind plain)"""
    br = k.br
    _ = br.BranchingValues()
    _.sum = 0
    _.last = -1
    bsec = k.S("b")
    for i in br._range(k.S("n"), max=3, ctx=_):
        _.sum = _.sum + i + k.S("x")
        _.last = i
        br._breakif((i == bsec) if kind == "cmp" else (i == 1), ctx=_)
    br._endfor(ctx=_)
    nv, x, bv = k.v("n"), k.v("x"), k.v("b")
    s, last = 0, -1
    for i in range(3):
        if i >= nv:            # native: for i in range(nv) -- empty when the bound is not above the start
            break
        s = s + i + x
        last = i
        if ((i == bv) if kind == "cmp" else (i == 1)):
            break
    obs = []
    compare(obs, _, {"sum": s, "last": last})
    return obs


def p_for_pub_secretbreak(k, kind):
    """public loop bound, secret break condition"""
    br = k.br
    _ = br.BranchingValues()
    _.s = 0
    n = k.S("n")
    for i in br._range(3, ctx=_):
        _.s = _.s + i + 1
        br._breakif((i == n) if kind == "cmp" else (n - i - 1 < 0), ctx=_)
    br._endfor(ctx=_)
    nv = k.v("n")
    s = 0
    for i in range(3):
        s = s + i + 1
        if ((i == nv) if kind == "cmp" else (nv - i - 1 < 0)):
            break
    obs = []
    compare(obs, _, {"s": s})
    return obs


def p_while_in_for(k, kind):
    """a while loop directly inside the body of a secret-bounded for loop"""
    br = k.br
    _ = br.BranchingValues()
    _.s = 0
    m = k.S("b")
    for i in br._range(k.S("n"), max=2, ctx=_):
        j = 0
        while br._while(j != m, ctx=_) and j != 2:
            _.s = _.s + i + 1
            j += 1
        br._endwhile(ctx=_)
    br._endfor(ctx=_)
    nv, bv = k.v("n"), k.v("b")
    s = 0
    for i in range(2):
        if i >= nv:
            break
        j = 0
        while j != bv and j != 2:
            s = s + i + 1
            j += 1
    obs = []
    compare(obs, _, {"s": s})
    return obs


def p_forcheck(k, kind):
    """secret bound checked against the public maximum: a bound above the maximum must be rejected"""
    br = k.br
    _ = br.BranchingValues()
    _.sum = 0
    try:
        for i in br._range(k.S("n"), max=3, ctx=_, checkstopmax=True):
            _.sum = _.sum + i
        br._endfor(ctx=_)
    except AssertionError:
        return [("a secret bound is rejected only when it exceeds the public maximum", k.v("n") > 3)]
    nv = k.v("n")
    s = 0
    for i in range(3):
        if i >= nv:            # native: for i in range(nv) -- empty when the bound is not above the start
            break
        s = s + i
    obs = [("a secret bound above the public maximum is rejected", nv <= 3)]
    compare(obs, _, {"sum": s})
    return obs


def p_lazy(k, kind):
    br = k.br
    c = k.B("c") if kind != "cmp" else (k.S("c") > 0)
    x = k.S("x"); y = k.S("y")
    r = br.if_then_else(c, lambda: x * y, lambda: x + y)
    del LAST_WIRES[:]
    LAST_WIRES.append(r)
    cv, xv, yv = k.v("c"), k.v("x"), k.v("y")
    return [("lazy selection returns the value of the branch native control flow takes", ("eq", val(r), (xv * yv) if cv else (xv + yv)))]


def p_lazy_div(k, kind):
    """the untaken branch would raise on its own: y / x with x not dividing y"""
    br = k.br
    x = k.S("x"); y = k.S("y")
    c = (x * 3 == y)
    r = br.if_then_else(c, lambda: y / 3, lambda: x + 1)
    xv, yv = k.v("x"), k.v("y")
    return [("lazy selection guards the untaken branch", ("eq", val(r), (yv // 3) if (xv * 3 == yv) else (xv + 1)))]


PROGRAMS = {"elif2": (p_elif2, ("c", "d", "e", "x")), "elif_cmp": (p_elif_cmp, ("c", "x")),
            "lazy_cmp_branches": (p_lazy_cmp_branches, ("c", "x", "y")),
            "if_else": (p_if_else, ("c", "x")), "if_only": (p_if_only, ("c", "x", "y")), "elif": (p_elif, ("c", "d", "x")),
            "nested": (p_nested, ("c", "d", "x")), "nestedop": (p_nested_op, ("c", "x")), "matrix": (p_matrix, ("c", "x")), "while": (p_while, ("n", "b", "x")), "for": (p_for, ("n", "x")),
            "while_pubbreak": (p_while_pubbreak, ("n", "x")), "for_break": (p_for_break, ("n", "b", "x")),
            "while_in_for": (p_while_in_for, ("n", "b")), "for_pub_secretbreak": (p_for_pub_secretbreak, ("n",)), "forcheck": (p_forcheck, ("n",)),
            "lazy": (p_lazy, ("c", "x", "y")), "lazy_div": (p_lazy_div, ("x", "y"))}


def build(n=4, tier="quick"):
    ents = []
    for nm, (prog, ins) in PROGRAMS.items():
        kinds = ("plain", "cmp") if nm not in ("lazy_div", "while", "for", "forcheck", "while_in_for") else ("cmp",)
        if nm in ("lazy", "lazy_cmp_branches"):
            kinds = ("bool", "cmp")
        if nm in ("while_pubbreak", "for_break", "for_pub_secretbreak"):
            kinds = ("plain", "cmp")
        for kind in kinds:
            def assume(k, ins=ins, nm=nm):
                cs = []
                for i in ins:
                    if i in ("c", "d", "e"):
                        cs.append((k.v(i) == 0) | (k.v(i) == 1))
                    elif i == "n" and nm in ("for", "for_break"):
                        cs.append((k.v(i) >= -2) & (k.v(i) <= 4))      # a bound below the start: native range() is empty
                    elif i in ("n", "b"):
                        cs.append((k.v(i) >= 0) & (k.v(i) <= 4))
                    elif nm == "nestedop":
                        cs.append((k.v(i) >= 0) & (k.v(i) < 20))
                    else:
                        cs.append((k.v(i) > -50) & (k.v(i) < 50))
                return cs
            ents.append(Entry("ctl_%s_%s" % (nm, kind), (lambda k, prog=prog, kind=kind: prog(k, kind)), ins, assume=assume,
                              tags={"c09", nm, kind}))
            if nm not in ("forcheck", "lazy_div"):
                # the same program, returning the wires of its final variables (for uniqueness / value-vs-wire analyses)
                ents.append(Entry("ctlout_%s_%s" % (nm, kind), (lambda k, prog=prog, kind=kind: (prog(k, kind), list(LAST_WIRES))[1]),
                                  ins, assume=assume, tags={"c09out", nm, kind}))
    return ents


def by_name(n=4, tier="thorough"):
    return {e.name: e for e in build(n, tier)}
