"""C17 harnesses: @snark-wrapped functions with structured arguments/results; what becomes public, in which order,
how outputs are tied, what the caller gets back."""
from .catalogue import Entry
from symtrace.concrete import flat, lincomb_of


def leaves(struct):
    """numeric leaves of an argument structure in positional order (lists, tuples, dicts in key order)"""
    if isinstance(struct, (list, tuple)):
        for x in struct:
            yield from leaves(x)
    elif isinstance(struct, dict):
        for kx in struct:
            yield from leaves(struct[kx])
    else:
        yield struct


def scaled(k, v):
    """the integer a numeric argument is published as"""
    if isinstance(v, bool):
        return int(v)
    if isinstance(v, float):
        s = v * (1 << k.r)
        assert s == int(s)
        return int(s)
    return v


def plainval(k, o):
    """plain value the caller should get back for a returned secret"""
    return o


def run_calls(k, calls):
    """calls: list of (body, args builder) ; body works on secrets and on plain numbers alike"""
    rt = k.rt
    rec = k.env.rec
    obs = []
    expect_pub = []
    ci = 0
    for body, mkargs in calls:
        ci += 1
        args = mkargs(k)
        stash = []

        def wrapped(*a):
            r = body(k, *a)
            stash.append(r)
            return r
        n0, c0 = len(rec.pubvals), len(rec.constraints)
        ret = rt.snark(wrapped)(*args)
        arg_leaves = [scaled(k, v) for v in leaves(args) if isinstance(v, (int, float)) or type(v).__name__ in ("SymInt",)]
        outs = [o for o in flat(stash[0]) if lincomb_of(o) is not None]
        newpub = rec.pubvals[n0:]
        obs.append(("call %d: exactly the numeric arguments and the secret results become public (%d+%d)" % (ci, len(arg_leaves), len(outs)),
                    len(newpub) == len(arg_leaves) + len(outs)))
        if len(newpub) == len(arg_leaves) + len(outs):
            for i, (p, v) in enumerate(zip(newpub, arg_leaves)):
                obs.append(("call %d: public input %d is argument leaf %d (positional order)" % (ci, i, i), ("eq", p, v)))
            for j, o in enumerate(outs):
                lc = lincomb_of(o)
                obs.append(("call %d: public output %d is result %d (positional order)" % (ci, j, j),
                            ("eq", newpub[len(arg_leaves) + j], lc.value)))
                # tie: a constraint 0*0 = result_lc - pub_wire
                wire = n0 + len(arg_leaves) + j + 1
                want = dict(lc.lc.lc)
                want[wire] = want.get(wire, 0) - 1
                want = {a: b for a, b in want.items() if b != 0}
                tied = any(not c[0].lc and not c[1].lc and {a: b for a, b in c[2].lc.items() if b != 0} == want
                           for c in rec.constraints[c0:])
                obs.append(("call %d: output %d is tied to its computed wire by an equality constraint" % (ci, j), tied))
        # the caller gets the plain values of the undecorated function on the plain arguments
        plain_args = plain_structure(k, args)
        ref = body(k, *plain_args)
        got = list(flat(ret))
        want = [x for x in flat(ref)]
        obs.append(("call %d: result shape" % ci, len(got) == len(want)))
        for i, (g, w) in enumerate(zip(got, want)):
            plain = lincomb_of(g) is None and not hasattr(g, "lc")
            obs.append(("call %d: returned value %d is a plain number, not a wire object" % (ci, i), plain))
            if not plain:
                continue
            if isinstance(w, float) or type(w).__name__ == "SymReal":
                obs.append(("call %d: returned value %d has the type the plain function returns (float)" % (ci, i),
                            type(g).__name__ in ("float", "SymReal")))
            if isinstance(w, float) or isinstance(g, float) or type(g).__name__ == "SymReal" or type(w).__name__ == "SymReal":
                obs.append(("call %d: returned value %d equals the plain function's" % (ci, i), g == w))
            else:
                obs.append(("call %d: returned value %d equals the plain function's" % (ci, i), ("eq", g, w)))
        for kw in (dict(extra=1), dict(label="x"), dict(weights=[5, 7]), dict(opt=None), dict(extra=2.5)):
            n1 = len(rec.pubvals)
            try:
                rt.snark(wrapped)(*args, **kw)
                obs.append(("call %d: keyword arguments are refused (%s)" % (ci, sorted(kw)), False))
            except ValueError:
                obs.append(("call %d: keyword arguments are refused (%s)" % (ci, sorted(kw)), len(rec.pubvals) == n1))
            except TypeError:
                obs.append(("call %d: keyword arguments are refused with ValueError (%s)" % (ci, sorted(kw)), False))
    return obs


def run_guarded_call(k):
    """a wrapped call made inside a branch whose guard may be false: its outputs are still tied to the computed wires"""
    rt = k.rt
    rec = k.env.rec
    g = k.S("g")
    stash = []

    def body(x, y):
        r = x * y + 1
        stash.append(r)
        return r
    n0, c0 = len(rec.pubvals), len(rec.constraints)
    ret = rt.guarded(g)(lambda: rt.snark(body)(k.v("x"), k.v("y")))()
    newpub = rec.pubvals[n0:]
    obs = [("guarded call: two inputs and one output become public", len(newpub) == 3)]
    if len(newpub) == 3:
        lc = lincomb_of(stash[0])
        obs.append(("guarded call: output value", ("eq", newpub[2], lc.value)))
        wire = n0 + 3
        # under a guard the tie is  0*0 = (result - pub) + dummy ;  guard * dummy = 0
        tied = False
        for c in rec.constraints[c0:]:
            cc = {a: b for a, b in c[2].lc.items() if b != 0}
            if not c[0].lc and not c[1].lc and cc.get(wire) == -1 and all(cc.get(a) == b for a, b in lc.lc.lc.items() if b != 0):
                tied = True
        obs.append(("guarded call: the output is tied to its computed wire whatever the guard", tied))
    return obs


def plain_structure(k, args):
    return args


# bodies: written so that they run on secrets and on plain numbers
_SHARED = {}


def _shared(k):
    """the same argument list object handed to two wrapped calls of one run"""
    key = id(k)
    if key not in _SHARED:
        _SHARED.clear()
        _SHARED[key] = ([k.v("x"), k.v("y"), k.v("z")], 3)
    return _SHARED[key]


def b_mul(k, x, y):
    return x * y + 1


def b_pair(k, x, y):
    return (x + y, x * y)


def b_list(k, xs, y):
    return [xs[0] * y, xs[1] + xs[2], 7]


def b_dict(k, d):
    return {"s": d["a"] + d["b"], "p": d["a"] * d["b"]}


def b_mixed(k, f, i):
    # f fixed point, i integer: return (fixed point, integer) -- order matters
    return (f + i, i * 2)


def b_mixed_in(k, i, f, j):
    return i + j


def b_twice(k, x, y):
    s = x * y
    return (s, s, {"again": s})


def b_dictn(k, d, xs):
    # containers inside dicts, on the way in and on the way out
    return {"tot": {"s": [d["w"][0] * xs[0] + d["b"][1]["c"]]}, "l": [d["w"][1] * xs[1], (d["b"][0] * 2,)]}


def b_listd(k, ds):
    return [{"q": [ds[0]["a"] * ds[1]["a"]]}, ({"r": ds[0]["a"] + ds[1]["b"][0]},)]


import enum


class Level(enum.IntEnum):
    LOW = 1
    HIGH = 3


class Metres(int):
    pass


class Ratio(float):
    pass


def b_sub(k, lvl, m, ratio, flag, x):
    return [x * lvl + m, x * flag]


def b_const(k, x):
    return 5


def b_nested(k, t):
    (a, (b, c)) = t
    return [a * b, [c, a + c]]


PROGRAMS = {
    "mul": ([(b_mul, lambda k: (k.v("x"), k.v("y")))], ("x", "y")),
    "pair": ([(b_pair, lambda k: (k.v("x"), k.v("y")))], ("x", "y")),
    "list": ([(b_list, lambda k: ([k.v("x"), k.v("y"), k.v("z")], 3))], ("x", "y", "z")),
    "dict": ([(b_dict, lambda k: ({"a": k.v("x"), "b": k.v("y")},))], ("x", "y")),
    "dict_nested": ([(b_dictn, lambda k: ({"w": [k.v("x"), k.v("y")], "b": (k.v("z"), {"c": 2})}, [3, k.v("x")]))],
                    ("x", "y", "z")),
    "list_of_dicts": ([(b_listd, lambda k: ([{"a": k.v("x")}, {"a": k.v("y"), "b": [k.v("z")]}],))], ("x", "y", "z")),
    # arguments that are instances of proper subclasses of int / float (an IntEnum member, a unit-tagged int, a float subclass)
    "subclass_args": ([(b_sub, lambda k: (Level.HIGH, Metres(6), Ratio(0.5), True, k.v("x")))], ("x",)),
    "nested": ([(b_nested, lambda k: ((k.v("x"), (k.v("y"), k.v("z"))),))], ("x", "y", "z")),
    "mixed_out": ([(b_mixed, lambda k: (1.5, k.v("x")))], ("x",)),
    "mixed_in": ([(b_mixed_in, lambda k: (k.v("x"), 2.25, k.v("y")))], ("x", "y")),
    "const": ([(b_const, lambda k: (k.v("x"),))], ("x",)),
    "same_wire_twice": ([(b_twice, lambda k: (k.v("x"), k.v("y")))], ("x", "y")),
    "shared_list": ([(b_list, lambda k: _shared(k)), (b_list, lambda k: _shared(k))], ("x", "y", "z")),
    "seq3": ([(b_mul, lambda k: (k.v("x"), k.v("y"))), (b_pair, lambda k: (k.v("y"), 4)), (b_mul, lambda k: (k.v("x"), k.v("x")))],
             ("x", "y")),
}


def build(n=4, tier="quick"):
    ents = [Entry("snark_" + nm, (lambda k, calls=calls: run_calls(k, calls)), ins, tags={"c17"})
            for nm, (calls, ins) in PROGRAMS.items()]
    ents.append(Entry("snark_guarded_call", run_guarded_call, ("g", "x", "y"),
                      assume=lambda k: [(k.v("g") == 0) | (k.v("g") == 1)], tags={"c17", "guard"}))
    return ents


def by_name(n=4, tier="thorough"):
    return {e.name: e for e in build(n, tier)}
