"""C01 completeness: on every completed path (error checking on) the recorded hints satisfy every emitted
constraint modulo the field prime.  DESIGN 5/C01."""
import z3

from symtrace import engine as E, harness as H, oblig as O
from . import catalogue as CAT
from . import common as C
from .catjob import lookup, Job

PID = "C01"


PRELUDE_SUBSET = ("int_lt_ss", "int_le_sc3", "int_eq_ss", "int_abs", "int_mul_ss", "int_truediv_ss", "int_to_bits_default", "int_check_positive", "sel_ite_cmp", "arr_read_s2", "int_rshift_sc3")


def is_very_heavy(e):
    """a secret-exponent power followed by further gadgets on the same operands: run where it matters (C05 value, C04/C01
    plain) and in the thorough tier"""
    return e.name == "int_pow_ss_then_reuse_base"


def is_heavy(e):
    """secret exponent / shift count (secret on the right-hand side): 2^n paths and chains of products"""
    return any(t in e.tags for t in ("pow", "lshift", "rshift")) and ("ss" in e.tags or "cs" in e.tags)


def jobs(tier):
    js = []
    ns = [4] if tier == "quick" else [4, 8, 16]
    for n in ns:
        ents = CAT.build(n, tier if n == 4 else "quick")
        bound = (1 << 64) if tier == "quick" else None
        for e in ents:
            heavy = is_heavy(e)
            if n == 16 and heavy:
                continue            # secret exponents/shift counts: 2^n paths, stated bound n <= 8
            if n > 4 and is_very_heavy(e):
                continue            # the power-then-reuse composition does not finish at n=8 (1500 s): stated bound n = 4
            for g in (None, "sym"):
                if g == "sym" and heavy and n > 4:
                    continue
                if g == "sym" and is_very_heavy(e) and tier == "quick":
                    continue
                if g == "sym" and n > 4 and "arr" in e.tags:
                    continue
                js.append(dict(name="%s/n%d/%s" % (e.name, n, g or "plain"), entry=e.name, backend="snarkjs",
                               cfg=dict(n=n, r=2, guard=g, bound=bound), tier=tier,
                               weight=(50 if heavy else 1) * n))
        if n == 4:
            for e in ents:
                if "comp" in e.tags or "sel" in e.tags or e.name in ("int_floordiv_ss", "int_lt_ss", "int_eq_ss",
                                                                     "int_truediv_sc3", "assert_lt_ss"):
                    js.append(dict(name="%s/n4/nest2" % e.name, entry=e.name, backend="snarkjs",
                                   cfg=dict(n=4, r=2, guard=("nest", 2), bound=bound), tier=tier, weight=8))
    # histories: the same operations after a region with a false guard was left normally / by an exception
    for e in CAT.build(4, "quick"):
        if e.name in PRELUDE_SUBSET or e.name in ("assert_lt_ss", "assert_positive"):
            for pre in (["false_region"], ["aborted_region"], ["self_first"]):
                js.append(dict(name="%s/n4/after-%s" % (e.name, pre[0]), entry=e.name, backend="snarkjs",
                               cfg=dict(n=4, r=2, guard=None, bound=(1 << 64), prelude=pre), tier=tier, weight=2))
    # ... and inside an enclosing guarded region, after an inner region was entered and left there
    for e in CAT.build(4, "quick"):
        if e.name in PRELUDE_SUBSET or e.name in ("assert_lt_ss", "assert_positive", "assert_nonzero", "assert_ne_ss", "int_ne_ss"):
            for pre in (["false_region"], ["true_region"], ["aborted_region"]):
                js.append(dict(name="%s/n4/guard-inside-after-%s" % (e.name, pre[0]), entry=e.name, backend="snarkjs",
                               cfg=dict(n=4, r=2, guard="sym", bound=(1 << 64), inner_prelude=pre), tier=tier, weight=3))
    if tier == "quick":
        # the operations whose hints come from the backend (field inverses) under the two non-default fields
        for be in ("zkifbellman", "zkifbulletproofs"):
            for e in CAT.build(4, "quick"):
                if e.name in ("int_truediv_sc3", "int_ne_ss", "int_eq_ss", "assert_nonzero", "assert_ne_ss", "arr_read_s2", "int_truediv_ss"):
                    js.append(dict(name="%s/n4/plain/%s" % (e.name, be), entry=e.name, backend=be,
                                   cfg=dict(n=4, r=2, guard=None, bound=None), tier=tier, weight=4))
    if tier == "thorough":
        for be in ("zkinterface", "zkifbellman", "zkifbulletproofs"):
            for e in CAT.build(4, "quick"):
                if is_heavy(e):
                    continue
                js.append(dict(name="%s/n4/plain/%s" % (e.name, be), entry=e.name, backend=be,
                               cfg=dict(n=4, r=2, guard=None, bound=None), tier=tier, weight=4))
    return js


def concrete_points(env, job, entry):
    """candidate plain-integer inputs (those the entry's assumptions admit)"""
    from symtrace.concrete import Kit
    names = list(entry.ins) + (["g"] if job.cfg.get("guard") == "sym" else
                               ["g%d" % i for i in range(job.cfg["guard"][1])] if isinstance(job.cfg.get("guard"), (tuple, list)) else [])
    P = env.P or (1 << 61) - 1
    for f in (lambda i: 3 + 2 * i, lambda i: i, lambda i: 1, lambda i: -1 - i, lambda i: 0, lambda i: 2 + i, lambda i: 7 - 3 * i,
              lambda i: 1001 + 7 * i, lambda i: P - 1 - i):
        inputs = {nm: (1 if nm.startswith("g") and nm[1:].isdigit() or nm == "g" else f(i)) for i, nm in enumerate(names)}
        if entry.assume is not None:
            try:
                if not all(bool(c) for c in entry.assume(Kit(env, dict(inputs), job.cfg.get("n", 4), job.cfg.get("r", 2)))):
                    continue
            except Exception:
                continue
        yield inputs


def concrete_judgement(env, job, entry, inputs_list, why):
    """C01 on plain-integer runs: used where the engine cannot speak for the code (a path it cannot encode, or a path whose
    symbolic outcome the concrete run does not reproduce).  A completed run whose recorded witness leaves a constraint
    unsatisfied is a violation by itself (and replayable); nothing is claimed otherwise."""
    from symtrace.concrete import run_concrete, ev_concrete
    n = 0
    for inputs in inputs_list:
        out = run_concrete(env, entry, job.cfg, inputs)
        n += 1
        if out["outcome"] != "ok":
            continue
        bad = None
        for i, (a, b, c) in enumerate(out["cons"]):
            if (ev_concrete(a, out["pub"], out["priv"], env.P) * ev_concrete(b, out["pub"], out["priv"], env.P)
                    - ev_concrete(c, out["pub"], out["priv"], env.P)) % env.P != 0:
                bad = i
                break
        job.obligation("sat" if bad is not None else "unsat")
        if bad is not None:
            job.finding("c01", "constraint %d unsatisfied by the recorded witness on %s" % (bad, inputs), dict(inputs=inputs, idx=bad))
    return n


def run_job(env, spec):
    entry = lookup(spec)
    job = Job(spec.get("pid", PID), env, spec, entry, spec.get("catalogue", "checks.catalogue"))
    job.cfg["want_ref"] = False
    twin_done = False
    try:
        traces = job.explore()
    except E.Unsupported as ex:
        n = concrete_judgement(env, job, entry, list(concrete_points(env, job, entry)), str(ex))
        job.inconclusive("not encodable (%s): judged on %d plain-integer runs only" % (str(ex)[:100], n))
        return job.done()
    # paths whose symbolic outcome the concrete run did not reproduce are not judged symbolically (harness error); the
    # concrete run at that point is judged on its own
    tv_inputs = [t.extra["tv_inputs"] for t in job.traces if t not in traces and t.extra.get("tv_inputs")]
    if tv_inputs:
        concrete_judgement(env, job, entry, tv_inputs, "translator validation failed")
    for t in traces:
        if not t.path.ok:
            continue
        pi = t.extra["idx"]
        obs = O.c01_obligations(env, t, job.timeout, label=job.name)
        for ob in obs:
            job.obligation(ob["status"])
            if ob["status"] == "unknown":
                job.inconclusive("path %d constraint %d: solver unknown (%s)" % (pi, ob["idx"], ob.get("reason")))
            elif ob["status"] == "sat":
                inputs = H.model_inputs(ob["model"], job.vals)
                pubt, privt = H.wire_terms(t)
                term = O.constraint_term(t.cons[ob["idx"]], pubt, privt)
                job.finding("c01", "constraint %d unsatisfied by the recorded witness on %s" % (ob["idx"], inputs),
                            dict(inputs=inputs, idx=ob["idx"]), facts=t.path.facts(), goal=term % env.P != 0,
                            model=ob["model"])
        if not twin_done and t.cons and t.priv:
            # vacuity twin: corrupt the last hint that occurs in a constraint; the claim must become refutable
            pubt, privt = H.wire_terms(t)
            used = sorted({-k for c in t.cons for part in c for k in part if k < 0})
            if used:
                j = used[-1] - 1
                privt2 = list(privt)
                privt2[j] = privt2[j] + 1
                touching = [c for c in t.cons if any(k == -(j + 1) for part in c for k in part)]
                goal = z3.Or([O.constraint_term(c, pubt, privt2) % env.P != 0 for c in touching])
                fs = t.path.facts()
                if len(fs) > 600:          # Poseidon-sized paths: the facts within two steps of the corrupted constraint
                    fs = H.Slicer(t.path.facts(linear_only=True)).slice(goal, 2)
                st, _ = H.solve(fs, goal, job.timeout)
                job.twin(st == "sat")
                twin_done = True
        if obs:
            job.sample(dict(path=pi, constraints=len(t.cons),
                            path_condition=[str(z3.simplify(c))[:120] for c in t.path.pc[:4]],
                            statuses=[o["status"] for o in obs][:8], model_inputs=t.extra.get("tv_inputs")))
    return job.done()


def main(argv):
    tier = C.tier()
    rep = C.Report(PID)
    rep.functions |= {"pysnark.runtime.LinComb.* (all operators, assertions, to_bits/from_bits, check_*)",
                      "pysnark.runtime.add_constraint/add_constraint_unsafe/add_guard/guarded",
                      "pysnark.boolean.LinCombBool.*", "pysnark.branching.if_then_else",
                      "pysnark.array.Array.__getitem__/__setitem__", "pysnark.snarkjsbackend (recorder)"}
    rep.bounds = dict(bitlength=[4] if tier == "quick" else [4, 8, 16],
                      operand_magnitude="< 2^64" if tier == "quick" else "unbounded",
                      guard_nesting=2, constants=[0, 3, -3] if tier == "quick" else [0, 1, 2, 3, -3, "2^n-1"],
                      secret_exponent_and_shift="n=4 unguarded (quick); n<=8, guarded at n=4 (thorough)",
                      backends=["snarkjs"] if tier == "quick" else ["snarkjs", "zkinterface", "zkifbellman",
                                                                    "zkifbulletproofs"])
    rep.assumptions = ["Fermat: pow(x,p-2,p) is 0 for x=0 mod p and otherwise an inverse of x (only linear consequences used)",
                       "guard values are 0/1 (other values: C08)",
                       "LinCombBool.is_boolean_value/parse_boolean replaced by merged summaries (equivalence checked in C05)",
                       "hash gadgets are covered by C20, fixed point by C14, packing by C16"]
    js = jobs(tier)
    if argv:
        js = [j for j in js if any(a in j["name"] for a in argv)]
    for r in C.run_jobs("c01", js):
        rep.absorb(r)
    return rep.finish("./check C01")
