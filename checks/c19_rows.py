"""C19 part B (no z3 import): real interpreter runs of the realisable configurations, and interface completeness."""
import json
import os
import re
import shutil
import subprocess
import tempfile
from concurrent.futures import ThreadPoolExecutor

from . import common as C

IFACE = ["pubval", "privval", "zero", "one", "fieldinverse", "get_modulus", "add_constraint", "prove"]
NAME2MOD = {"qaptools": "pysnark.qaptools.backend", "snarkjs": "pysnark.snarkjsbackend", "zkinterface": "pysnark.zkinterface.backend",
            "zkifbellman": "pysnark.zkinterface.backendbellman", "zkifbulletproofs": "pysnark.zkinterface.backendbulletproofs",
            "nobackend": "pysnark.nobackend"}
FIELD = {"zkinterface": 21888242871839275222246405745257275088548364400416034343698204186575808495617,
         "zkifbellman": 52435875175126190479447740508185965837690552500527637822603658699938581184513,
         "zkifbulletproofs": 7237005577332262213973186563042994240857116359379907606001950938285454250989,
         "snarkjs": 21888242871839275222246405745257275088548364400416034343698204186575808495617,
         "qaptools": 21888242871839275222246405745257275088548364400416034343698204186575808495617}

SCRIPT = r'''
import json, sys
%(pre)s
try:
    import pysnark.runtime as rt
    rt.autoprove = False
    be = rt.backend
    if not hasattr(be, "process_snark"): be.process_snark = None
    p = be.get_modulus()
    out = dict(name=rt.backend_name, module=be.__name__, modulus=str(p),
               inv=all(v * be.fieldinverse(v) %% p == 1 for v in (7, -3, p + 2)) if hasattr(be, "fieldinverse") and p > 10**6 else True,
               iface=[a for a in %(iface)r if not hasattr(be, a)])
except Exception as ex:
    out = dict(error="%%s: %%s" %% (type(ex).__name__, ex))
print("RESULT " + json.dumps(out))
'''


SCRIPT_LS = r'''
import json, sys
%(pre)s
try:
    import pysnark.runtime as rt
    rt.autoprove = False
    from pysnark.runtime import PrivVal, PubVal
    be = rt.backend
    if not hasattr(be, "process_snark"): be.process_snark = None
    x = PrivVal(3); y = PubVal(5)
    (x * x).assert_eq(9); (x * y + 1).val(); (x / 3).val(); (x != y).val()
    import libsnark.alt_bn128 as L
    n0 = len(L.CALLS)
    be.prove(do_print=False)
    p = be.get_modulus()
    out = dict(name=rt.backend_name, module=be.__name__, modulus=str(p), families=sorted({f for f, _ in L.CALLS[n0:]}),
               calls=[c for _, c in L.CALLS[n0:]], ncons=be.pb.num_constraints(), sat=bool(be.pb.is_satisfied()),
               inv=all(v * be.fieldinverse(v) %% p == 1 for v in (7, -3, p + 2)),
               iface=[a for a in %(iface)r if not hasattr(be, a)])
except Exception as ex:
    out = dict(error="%%s: %%s" %% (type(ex).__name__, ex))
print("RESULT " + json.dumps(out))
'''
LS_NAME2MOD = {"libsnark": "pysnark.libsnark.backend", "libsnarkgg": "pysnark.libsnark.backendgg"}
LS_FAMILY = {"libsnark": "pghr13", "libsnarkgg": "groth16"}


def rows_libsnark():
    """the names libsnark / libsnarkgg, exercised with the recording stand-in for the extension (stubs_libsnark)"""
    rs = [("ls:libsnark", ()), ("ls:libsnarkgg", ()), ("ls:", ())]
    for m in LS_NAME2MOD.values():
        rs.append(("ls:", (m,)))
        rs.append(("ls:snarkjs", (m,)))
    return rs


def run_row_libsnark(args):
    envname, pre = args
    envname = envname[3:] or None
    d = tempfile.mkdtemp(prefix="verif_c19_")
    try:
        env = dict(os.environ)
        env["PYTHONPATH"] = os.path.join(C.VERIF, "stubs_libsnark") + os.pathsep + os.path.join(C.VERIF, "stubs") + os.pathsep + C.REPO
        env["QAPTOOLS_BIN"] = "/nonexistent"
        env.pop("PYSNARK_BACKEND", None)
        if envname:
            env["PYSNARK_BACKEND"] = envname
        src = SCRIPT_LS % dict(pre="\n".join("import %s" % m for m in pre), iface=IFACE)
        open(os.path.join(d, "s.py"), "w").write(src)
        p = subprocess.run([C.REPLAY_PY, "s.py"], cwd=d, env=env, capture_output=True, text=True, timeout=120)
        m = re.search(r"RESULT (.*)", p.stdout)
        out = json.loads(m.group(1)) if m else dict(error="no result: " + p.stderr[-200:])
        out.update(env="ls:" + (envname or ""), pre=list(pre), stdout=p.stdout[-300:])
        return out
    finally:
        shutil.rmtree(d, ignore_errors=True)


def judge_libsnark(r):
    envname = r["env"][3:] or None
    if r["pre"]:
        exp = [n for n, m in LS_NAME2MOD.items() if m == r["pre"][0]][0]
    elif envname in LS_NAME2MOD:
        exp = envname
    else:
        exp = "libsnark"                    # auto-detection: first loadable entry of the list
    if "error" in r:
        return False, "selection or proving failed: %s" % r["error"]
    if r["name"] != exp:
        return False, "backend name %s, expected %s" % (r["name"], exp)
    if r["module"] != LS_NAME2MOD[exp]:
        return False, "module %s for name %s" % (r["module"], exp)
    if int(r["modulus"]) != FIELD["snarkjs"]:
        return False, "name %s but field modulus %s" % (exp, r["modulus"])
    if r["families"] != [LS_FAMILY[exp]]:
        return False, "name %s but prove() used the proof-system entry points of %s (%s)" % (exp, r["families"], r["calls"])
    if not (r["sat"] and r["ncons"] >= 4):
        return False, "the selected module did not receive a satisfied trace (constraints=%s, satisfied=%s)" % (r["ncons"], r["sat"])
    if not r["inv"]:
        return False, "fieldinverse is not an inverse modulo the reported modulus"
    if r["iface"]:
        return False, "backend %s lacks %s" % (exp, r["iface"])
    return True, ""


def run_row(args):
    envname, pre = args
    if (envname or "").startswith("ls:"):
        return run_row_libsnark(args)
    d = tempfile.mkdtemp(prefix="verif_c19_")
    try:
        env = dict(os.environ)
        env["PYTHONPATH"] = os.path.join(C.VERIF, "stubs") + os.pathsep + C.REPO
        env["QAPTOOLS_BIN"] = os.path.join(C.VERIF, "stubs", "qaptools_bin") if "noqap" not in (envname or "") else "/nonexistent"
        env.pop("PYSNARK_BACKEND", None)
        if envname is not None and envname != "noqap":
            env["PYSNARK_BACKEND"] = envname
        src = SCRIPT % dict(pre="\n".join("import %s" % m for m in pre), iface=IFACE)
        open(os.path.join(d, "s.py"), "w").write(src)
        p = subprocess.run([C.REPLAY_PY, "s.py"], cwd=d, env=env, capture_output=True, text=True, timeout=120)
        m = re.search(r"RESULT (.*)", p.stdout)
        out = json.loads(m.group(1)) if m else dict(error="no result: " + p.stderr[-200:])
        out.update(env=envname, pre=list(pre), stdout=p.stdout[-300:], reported_unknown=("bogus" in p.stdout.split("RESULT")[0] or "unknown" in p.stdout.split("RESULT")[0].lower()
                                    or "bogus" in p.stderr))
        return out
    finally:
        shutil.rmtree(d, ignore_errors=True)


def expected(envname, pre):
    """decision table restricted to what can be imported here (libsnark never loads; qaptools loads with the stand-in tools)"""
    order = ["qaptools", "snarkjs", "zkinterface", "zkifbellman", "zkifbulletproofs", "nobackend"]
    if len(pre) > 1:                        # several pre-imported modules: any of them may be the backend in use, but the
        return tuple(n for n, m in NAME2MOD.items() if m in pre)   # name must identify the module *and the field* in effect
    if pre:
        return [n for n, m in NAME2MOD.items() if m == pre[0]][0]
    if envname in NAME2MOD:
        return envname
    if envname in ("libsnark", "libsnarkgg"):
        return "ERROR"
    return order[0]


def judge(r):
    if (r["env"] or "").startswith("ls:"):
        return judge_libsnark(r)
    exp = expected(r["env"], r["pre"])
    if exp == "ERROR":
        return ("error" in r), "a known but unloadable backend must fail loudly"
    if "error" in r:
        return False, "selection failed: %s" % r["error"]
    if isinstance(exp, tuple):
        if r["name"] not in exp:
            return False, "backend name %s, expected one of the pre-imported %s" % (r["name"], list(exp))
        exp = r["name"]
    if r["name"] != exp:
        return False, "backend name %s, expected %s" % (r["name"], exp)
    if r["module"] != NAME2MOD[exp] and not (r["module"] == "pysnark.zkinterface.backend" and exp.startswith("zkif")):
        return False, "module %s for name %s" % (r["module"], exp)
    if exp in FIELD and int(r["modulus"]) != FIELD[exp]:
        return False, "name %s but field modulus %s" % (exp, r["modulus"])
    if r["iface"]:
        return False, "backend %s lacks %s" % (exp, r["iface"])
    if not r.get("inv", True):
        return False, "backend %s: fieldinverse is not an inverse modulo the reported modulus" % exp
    if r["env"] not in (None, "noqap") and r["env"] not in NAME2MOD and not r["pre"] and not r.get("reported_unknown"):
        return False, "unknown backend name not reported"
    return True, ""


def rows():
    rs = [(None, ())]
    # (near misses of known names are unknown names: no prefix / case-insensitive matching)
    for n in list(NAME2MOD) + ["bogus", "libsnark", "snarkjsx", "nobackend_", "zkinterface2", "SNARKJS"]:
        rs.append((n, ()))
    for n, m in NAME2MOD.items():
        rs.append((None, (m,)))
        rs.append(("snarkjs" if n != "snarkjs" else "nobackend", (m,)))      # pre-import wins over the environment
    # two modules pre-imported, both orders (the derived zkinterface modules share the base module's field setting:
    # the reported name must go with the field that is in effect, whichever was imported last)
    zk = "pysnark.zkinterface."
    for a, b in ((zk + "backendbellman", zk + "backendbulletproofs"), (zk + "backend", zk + "backendbellman"),
                 (zk + "backend", zk + "backendbulletproofs"), ("pysnark.snarkjsbackend", "pysnark.nobackend"),
                 ("pysnark.snarkjsbackend", zk + "backendbellman"), ("pysnark.nobackend", zk + "backendbulletproofs")):
        rs.append((None, (a, b)))
        rs.append((None, (b, a)))
    return rs + rows_libsnark()


def part_b(rep, tier, known):
    rs = rows()
    with ThreadPoolExecutor(max_workers=16) as ex:
        results = list(ex.map(run_row, rs))
    for r in results:
        rep.obligations += 1
        ok, why = judge(r)
        if ok:
            rep.discharged += 1
            rep.tv += 1
            continue
        kid = None
        for kf in known:
            if kf.get("kind") == "c19_process" and kf.get("pre") == r["pre"] and kf.get("env") == r["env"]:
                kid = kf
        rep.findings.append(dict(what=kid["what"] if kid else "PYSNARK_BACKEND=%s, pre-imported %s: %s" % (r["env"], r["pre"], why),
                                 known=kid["id"] if kid else None,
                                 replay=dict(kind="ext:c19", module="checks.c19_rows", row=[r["env"], r["pre"]])))
    rep.extra["process_rows"] = len(results)
    if results:
        rep.samples.append({k: v for k, v in results[-1].items() if k != "stdout"})


def replay(spec, yes, no):
    r = run_row((spec["row"][0], tuple(spec["row"][1])))
    ok, why = judge(r)
    if ok:
        no("configuration behaves as specified: %s" % {k: v for k, v in r.items() if k != "stdout"})
    yes("PYSNARK_BACKEND=%s pre-imported=%s: %s" % (r["env"], r["pre"], why))
