"""C20 part B (no z3 import): which Poseidon parameter set is in use for each way the backend can have been selected."""
import json
import os
import re
import shutil
import subprocess
import tempfile
from concurrent.futures import ThreadPoolExecutor

from . import common as C

SCRIPT = r'''
import json, sys
%(pre)s
out = {}
try:
    import pysnark.runtime as rt
    rt.autoprove = False
    if not hasattr(rt.backend, "process_snark"): rt.backend.process_snark = None
    out["name"] = rt.backend_name
    out["modulus"] = str(rt.backend.get_modulus())
    from pysnark.poseidon_constants import poseidon_constants as pc
    try:
        import pysnark.poseidon_hash as ph
        out["params"] = [ph.R_F, ph.R_P, ph.t, ph.a]
        out["set"] = [nm for nm, c in pc.items() if c["round_constants"] is ph.round_constants]
    except NotImplementedError as ex:
        out["refused"] = str(ex)
except Exception as ex:
    out["error"] = "%%s: %%s" %% (type(ex).__name__, ex)
print("RESULT " + json.dumps(out))
'''


def run_row(args):
    envname, pre = args
    d = tempfile.mkdtemp(prefix="verif_c20_")
    try:
        env = dict(os.environ)
        env["PYTHONPATH"] = os.path.join(C.VERIF, "stubs") + os.pathsep + C.REPO
        env["QAPTOOLS_BIN"] = "/nonexistent"
        env.pop("PYSNARK_BACKEND", None)
        if envname is not None:
            env["PYSNARK_BACKEND"] = envname
        open(os.path.join(d, "s.py"), "w").write(SCRIPT % dict(pre="\n".join("import %s" % m for m in pre)))
        p = subprocess.run([C.REPLAY_PY, "s.py"], cwd=d, env=env, capture_output=True, text=True, timeout=120)
        m = re.search(r"RESULT (.*)", p.stdout)
        out = json.loads(m.group(1)) if m else dict(error="no result: " + p.stderr[-200:])
        out.update(env=envname, pre=list(pre))
        return out
    finally:
        shutil.rmtree(d, ignore_errors=True)


def judge(r):
    if "error" in r:
        return False, r["error"]
    if "refused" in r:
        return True, ""                       # no parameter set registered for this backend: importing fails loudly
    if r["set"] != [r["name"]]:
        return False, "backend in use is %s but the Poseidon parameters are those of %s (R_F=%s, alpha=%s)" % (
            r["name"], r["set"], r["params"][0], r["params"][3])
    if r["name"] == "nobackend":
        return True, ""
    if r["params"][0] < 8 or r["params"][3] != 5:
        return False, "toy parameters (R_F=%s, alpha=%s) with proof-producing backend %s" % (r["params"][0], r["params"][3], r["name"])
    return True, ""


def rows():
    zk = ["pysnark.zkinterface.backend", "pysnark.zkinterface.backendbellman", "pysnark.zkinterface.backendbulletproofs"]
    rs = [(None, ())]
    for n in ("snarkjs", "zkinterface", "zkifbellman", "zkifbulletproofs", "nobackend"):
        rs.append((n, ()))
    for m in zk + ["pysnark.snarkjsbackend", "pysnark.nobackend"]:
        rs.append((None, (m,)))
    rs.append(("zkifbellman", (zk[0],)))        # pre-import and environment disagree
    rs.append(("nobackend", (zk[1],)))
    return rs


def part_b(rep, tier, known):
    with ThreadPoolExecutor(max_workers=16) as ex:
        results = list(ex.map(run_row, rows()))
    for r in results:
        rep.obligations += 1
        ok, why = judge(r)
        if ok:
            rep.discharged += 1
            rep.tv += 1
            continue
        rep.findings.append(dict(what="PYSNARK_BACKEND=%s, pre-imported %s: %s" % (r["env"], r["pre"], why), known=None,
                                 replay=dict(kind="ext:c20", module="checks.c20_rows", row=[r["env"], r["pre"]])))
    rep.extra["parameter_selection_rows"] = len(results)
    if results:
        rep.samples.append(results[0])


def replay(spec, yes, no):
    r = run_row((spec["row"][0], tuple(spec["row"][1])))
    ok, why = judge(r)
    if ok:
        no("parameters match the backend in use: %s" % r)
    yes("PYSNARK_BACKEND=%s pre-imported=%s: %s" % (r["env"], r["pre"], why))
