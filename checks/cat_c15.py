"""C15 harnesses: secret-index array reads and writes (1-D lengths 1..4, 2x2, short sequences)."""
from .catalogue import Entry

CONSTS = [10, 13, 17, 23]          # pairwise distinct (identity of small ints must not short-circuit selection)


def cells(k, ln, secret, prefix="a"):
    return [k.S("%s%d" % (prefix, i)) for i in range(ln)] if secret else CONSTS[:ln]


def cvals(k, ln, secret, prefix="a"):
    return [k.v("%s%d" % (prefix, i)) for i in range(ln)] if secret else CONSTS[:ln]


def sel(i, vals):
    acc = 0
    for j, v in enumerate(vals):
        acc = acc + (i == j) * v
    return acc


def upd(i, vals, y):
    return [v + (i == j) * (y - v) for j, v in enumerate(vals)]


def inrange(i, ln):
    return (i >= 0) & (i < ln)


def mk_read(ln, secret):
    def fn(k):
        A = k.ar.Array(cells(k, ln, secret))
        return A[k.S("i")]
    return fn


def mk_write(ln, secret):
    def fn(k):
        A = k.ar.Array(cells(k, ln, secret))
        A[k.S("i")] = k.S("y")
        return A.arr
    return fn


def mk_write_const(ln):
    def fn(k):
        A = k.ar.Array(cells(k, ln, True))
        A[k.S("i")] = 5
        return A.arr
    return fn


def mk_2d_read(secret):
    def fn(k):
        r0 = k.ar.Array(cells(k, 2, secret, "a"))
        r1 = k.ar.Array(cells(k, 2, secret, "b")) if secret else k.ar.Array(CONSTS[2:4])
        A = k.ar.Array([r0, r1])
        return A[k.S("i"), k.S("j")]
    return fn


def mk_2d_write():
    def fn(k):
        A = k.ar.Array([k.ar.Array(cells(k, 2, True, "a")), k.ar.Array(cells(k, 2, True, "b"))])
        A[k.S("i"), k.S("j")] = k.S("y")
        return [A.arr[0].arr, A.arr[1].arr]
    return fn


def ref_2d_write(k):
    i, j, y = k.v("i"), k.v("j"), k.v("y")
    rows = [[k.v("a0"), k.v("a1")], [k.v("b0"), k.v("b1")]]
    return [[rows[r][c] + ((i == r) & (j == c)) * (y - rows[r][c]) for c in range(2)] for r in range(2)]


def seq_write_read(k):
    A = k.ar.Array(cells(k, 3, True))
    A[k.S("i")] = k.S("y")
    return A[k.S("j")]


def seq_write_write(k):
    A = k.ar.Array(cells(k, 2, True))
    A[k.S("i")] = k.S("y")
    A[k.S("j")] = k.S("z")
    return A.arr


def rows_from_reads_then_write(k):
    src = k.ar.Array([k.ar.Array(cells(k, 2, True, "a")), k.ar.Array(cells(k, 2, True, "b"))])
    m = k.ar.Array([src[k.S("p")], src[1 - k.S("p")]])        # rows obtained by secret-index reads (ArrayRow objects)
    m[0, k.S("j")] = k.S("y")                                  # constant row, secret column
    m[1, 0] = 77                                               # constant row, constant column
    return [[m[0, 0], m[0, 1]], [m[1, 0], m[1, 1]]]


def ref_rows_from_reads(k):
    p, j, y = k.v("p"), k.v("j"), k.v("y")
    rows = [[k.v("a0"), k.v("a1")], [k.v("b0"), k.v("b1")]]
    r0 = [sel(p, [rows[0][c], rows[1][c]]) for c in range(2)]
    r1 = [sel(1 - p, [rows[0][c], rows[1][c]]) for c in range(2)]
    r0 = upd(j, r0, y)
    r1 = [77, r1[1]]
    return [r0, r1]


def affine_indices(k):
    """three reads whose indices are different affine functions of one index wire (a selector memo keyed by the wires alone)"""
    A = k.ar.Array(cells(k, 3, True))
    i = k.S("i")
    return [A[i + 1], A[i + 2], A[2 * i + 2]]


def two_index_wires(k):
    """two index wires that may hold the same value, a write between the reads (a selector memo keyed by the value)"""
    A = k.ar.Array(cells(k, 3, True))
    i, j = k.S("i"), k.S("j")
    r0 = A[i]
    A[j] = k.S("y")
    return [r0, A[j], A[i]]


def write2d_then_read(k):
    """an in-range 2-D write, then a read of another array: the second access is range-checked like the first"""
    M = k.ar.Array([k.ar.Array(cells(k, 2, True, "a")), k.ar.Array(cells(k, 2, True, "b"))])
    M[k.S("i"), k.S("j")] = k.S("y")
    B = k.ar.Array([k.S("a0") + 1, k.S("a1") + 2, k.S("b0") + 3])
    return B[k.S("t")]


def seq_wrw(k):
    A = k.ar.Array(cells(k, 2, True))
    A[k.S("i")] = k.S("y")
    r = A[k.S("j")]
    A[k.S("i")] = r + 1
    return A.arr


def same_index_two_arrays(k):
    """one index object used on a longer and then on a shorter array (reads and a write)"""
    A = k.ar.Array(cells(k, 3, True, "a"))
    B = k.ar.Array(cells(k, 2, True, "b"))
    i = k.S("i")
    r1 = A[i]
    r2 = B[i]
    B[i] = k.S("y")
    return [r1, r2] + list(B.arr)


def ref_same_index_two_arrays(k):
    i, y = k.v("i"), k.v("y")
    return [sel(i, cvals(k, 3, True, "a")), sel(i, cvals(k, 2, True, "b"))] + upd(i, cvals(k, 2, True, "b"), y)


def same_index_rect(k):
    """m[i, i] on a 3x2 matrix: the same index object selects a row (3) and a column (2)"""
    rows = [k.ar.Array(cells(k, 2, True, p)) for p in ("a", "b", "c")]
    m = k.ar.Array(rows)
    i = k.S("i")
    return m[i, i]


def ref_same_index_rect(k):
    i = k.v("i")
    rows = [cvals(k, 2, True, p) for p in ("a", "b", "c")]
    return sel(i, [sel(i, r) for r in rows])


def branch_2d_write(k):
    """a 2-D array held in a branching context, written inside an _if region at a constant row and secret column"""
    br = k.br
    ctx = br.BranchingValues()
    ctx.m = k.ar.Array([k.ar.Array(cells(k, 2, True, "a")), k.ar.Array(cells(k, 2, True, "b"))])
    br._if(k.S("c"), ctx=ctx)
    ctx.m[1, k.S("j")] = k.S("y")
    br._endif(ctx=ctx)
    m = ctx.m
    return [[m[0, 0], m[0, 1]], [m[1, 0], m[1, 1]]]


def ref_branch_2d_write(k):
    c, j, y = k.v("c"), k.v("j"), k.v("y")
    rows = [[k.v("a0"), k.v("a1")], [k.v("b0"), k.v("b1")]]
    return [rows[0], [rows[1][col] + c * (j == col) * (y - rows[1][col]) for col in range(2)]]


def branch_2d_write_else(k):
    br = k.br
    ctx = br.BranchingValues()
    ctx.m = k.ar.Array([k.ar.Array(cells(k, 2, True, "a")), k.ar.Array(cells(k, 2, True, "b"))])
    br._if(k.S("c"), ctx=ctx)
    ctx.m[0, k.S("j")] = k.S("y")
    br._else(ctx=ctx)
    ctx.m[0, k.S("j")] = k.S("y") + 1
    br._endif(ctx=ctx)
    m = ctx.m
    return [[m[0, 0], m[0, 1]], [m[1, 0], m[1, 1]]]


def ref_branch_2d_write_else(k):
    c, j, y = k.v("c"), k.v("j"), k.v("y")
    rows = [[k.v("a0"), k.v("a1")], [k.v("b0"), k.v("b1")]]
    w = y + (1 - c)
    return [[rows[0][col] + (j == col) * (w - rows[0][col]) for col in range(2)], rows[1]]


def write_fxp_into_bools(k):
    """an array of secret booleans; a fixed-point value written at a secret index (the other elements are converted)"""
    A = k.ar.Array([k.B("a0"), k.B("a1"), k.B("a2")])
    A[k.S("i")] = k.F("y")
    return list(A.arr)


def ref_write_fxp_into_bools(k):
    i, y = k.v("i"), k.v("y")
    one = 1 << k.r
    return [(i == j) * y + (1 - (i == j)) * (k.v("a%d" % j) * one) for j in range(3)]


def build(n=4, tier="quick"):
    ents = []
    maxlen = 3 if tier == "quick" else 4
    def add(name, fn, ins, ref, dom, tags):
        ents.append(Entry(name, fn, ins, ref=ref, dom=dom, tags=set(tags) | {"arr"}))
        # twin with the in-range predicate as the "asserted relation": drives the rejected => unprovable obligation
        ents.append(Entry("oob_" + name, fn, ins, ref=dom, dom=dom, tags=set(tags) | {"arr", "assert", "oob"}))
    for ln in range(1, maxlen + 1):
        for secret in (True, False):
            sn = "s" if secret else "c"
            ins = tuple("a%d" % i for i in range(ln)) if secret else ()
            add("read_%s%d" % (sn, ln), mk_read(ln, secret), ins + ("i",),
                (lambda k, ln=ln, secret=secret: sel(k.v("i"), cvals(k, ln, secret))),
                (lambda k, ln=ln: inrange(k.v("i"), ln)), {"read", "len=%d" % ln})
            add("write_%s%d" % (sn, ln), mk_write(ln, secret), ins + ("i", "y"),
                (lambda k, ln=ln, secret=secret: upd(k.v("i"), cvals(k, ln, secret), k.v("y"))),
                (lambda k, ln=ln: inrange(k.v("i"), ln)), {"write", "len=%d" % ln})
        add("writeconst_s%d" % ln, mk_write_const(ln), tuple("a%d" % i for i in range(ln)) + ("i",),
            (lambda k, ln=ln: upd(k.v("i"), cvals(k, ln, True), 5)),
            (lambda k, ln=ln: inrange(k.v("i"), ln)), {"write", "len=%d" % ln})
    add("read2d_s", mk_2d_read(True), ("a0", "a1", "b0", "b1", "i", "j"),
        lambda k: sel(k.v("i"), [sel(k.v("j"), [k.v("a0"), k.v("a1")]), sel(k.v("j"), [k.v("b0"), k.v("b1")])]),
        lambda k: inrange(k.v("i"), 2) & inrange(k.v("j"), 2), {"read", "2d"})
    add("read2d_c", mk_2d_read(False), ("i", "j"),
        lambda k: sel(k.v("i"), [sel(k.v("j"), CONSTS[0:2]), sel(k.v("j"), CONSTS[2:4])]),
        lambda k: inrange(k.v("i"), 2) & inrange(k.v("j"), 2), {"read", "2d"})
    add("write2d_s", mk_2d_write(), ("a0", "a1", "b0", "b1", "i", "j", "y"), ref_2d_write,
        lambda k: inrange(k.v("i"), 2) & inrange(k.v("j"), 2), {"write", "2d"})
    add("seq_write_read", seq_write_read, ("a0", "a1", "a2", "i", "y", "j"),
        lambda k: sel(k.v("j"), upd(k.v("i"), cvals(k, 3, True), k.v("y"))),
        lambda k: inrange(k.v("i"), 3) & inrange(k.v("j"), 3), {"seq"})
    add("seq_write_write", seq_write_write, ("a0", "a1", "i", "y", "j", "z"),
        lambda k: upd(k.v("j"), upd(k.v("i"), cvals(k, 2, True), k.v("y")), k.v("z")),
        lambda k: inrange(k.v("i"), 2) & inrange(k.v("j"), 2), {"seq"})
    add("rows_from_reads_then_write", rows_from_reads_then_write, ("a0", "a1", "b0", "b1", "p", "j", "y"), ref_rows_from_reads,
        lambda k: inrange(k.v("p"), 2) & inrange(k.v("j"), 2), {"seq", "2d"})
    add("affine_indices", affine_indices, ("a0", "a1", "a2", "i"),
        lambda k: [sel(k.v("i") + 1, cvals(k, 3, True)), sel(k.v("i") + 2, cvals(k, 3, True)), sel(2 * k.v("i") + 2, cvals(k, 3, True))],
        lambda k: inrange(k.v("i") + 1, 3) & inrange(k.v("i") + 2, 3) & inrange(2 * k.v("i") + 2, 3), {"seq", "memo"})
    add("two_index_wires", two_index_wires, ("a0", "a1", "a2", "i", "j", "y"),
        lambda k: [sel(k.v("i"), cvals(k, 3, True)), k.v("y") + 0 * k.v("j"), sel(k.v("i"), upd(k.v("j"), cvals(k, 3, True), k.v("y")))],
        lambda k: inrange(k.v("i"), 3) & inrange(k.v("j"), 3), {"seq", "memo"})
    add("write2d_then_read", write2d_then_read, ("a0", "a1", "b0", "b1", "i", "j", "y", "t"),
        lambda k: sel(k.v("t"), [k.v("a0") + 1, k.v("a1") + 2, k.v("b0") + 3]),
        lambda k: inrange(k.v("i"), 2) & inrange(k.v("j"), 2) & inrange(k.v("t"), 3), {"seq", "2d"})
    add("same_index_two_arrays", same_index_two_arrays, ("a0", "a1", "a2", "b0", "b1", "i", "y"), ref_same_index_two_arrays,
        lambda k: inrange(k.v("i"), 2), {"seq", "shared_index"})
    add("same_index_rect", same_index_rect, ("a0", "a1", "b0", "b1", "c0", "c1", "i"), ref_same_index_rect,
        lambda k: inrange(k.v("i"), 2), {"read", "2d", "shared_index"})
    ents.append(Entry("write_fxp_into_bools", write_fxp_into_bools, ("a0", "a1", "a2", "i", "y"), ref=ref_write_fxp_into_bools,
                      assume=(lambda k: [((k.v("a%d" % j) == 0) | (k.v("a%d" % j) == 1)) for j in range(3)] + [inrange(k.v("i"), 3)]),
                      tags={"arr", "write", "mixed"}))
    bit_c = lambda k: [(k.v("c") == 0) | (k.v("c") == 1), inrange(k.v("j"), 2)]
    ents.append(Entry("branch_2d_write", branch_2d_write, ("a0", "a1", "b0", "b1", "c", "j", "y"), ref=ref_branch_2d_write,
                      assume=bit_c, tags={"arr", "write", "2d", "branch"}))
    ents.append(Entry("branch_2d_write_else", branch_2d_write_else, ("a0", "a1", "b0", "b1", "c", "j", "y"),
                      ref=ref_branch_2d_write_else, assume=bit_c, tags={"arr", "write", "2d", "branch"}))
    if tier != "quick":
        add("seq_write_read_write", seq_wrw, ("a0", "a1", "i", "y", "j"),
            lambda k: upd(k.v("i"), upd(k.v("i"), cvals(k, 2, True), k.v("y")),
                          sel(k.v("j"), upd(k.v("i"), cvals(k, 2, True), k.v("y"))) + 1),
            lambda k: inrange(k.v("i"), 2) & inrange(k.v("j"), 2), {"seq"})
    return ents


def by_name(n=4, tier="thorough"):
    return {e.name: e for e in build(n, tier)}
