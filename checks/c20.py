"""C20: hash gadgets equal a plain reference and use the active backend's parameters."""
import json
import os
import re
import shutil
import subprocess
import tempfile
from concurrent.futures import ThreadPoolExecutor

from . import cat_c20 as CAT20
from . import common as C
from . import c01, c04, c06
from .obsjob import run_obs_job
from .catjob import lookup
from .c20_rows import part_b

PID = "C20"
BACKENDS = ["zkinterface", "zkifbellman", "zkifbulletproofs"]


def jobs(tier):
    js = []
    for be in (BACKENDS if tier == "thorough" else BACKENDS[:2]):
        for e in CAT20.build(4, tier):
            base = dict(entry=e.name, backend=be, tier=tier, pid=PID, catalogue="checks.cat_c20", weight=3 if "pad" not in e.tags else 1,
                        job_timeout=600)
            cfg = dict(n=4, r=2, guard=None, bound=None)
            if "vector" in e.tags and be not in CAT20.VECTORS:
                continue
            if "pad" in e.tags and be != "zkinterface":
                continue            # padding does not depend on the field; the subset-sum coefficients do (rejection sampling
                                    # at the prime's bit length), so "ggh" runs under every field
            if "wires" in e.tags:
                js.append(dict(base, name="%s/%s/witness" % (e.name, be), analysis="witness", cfg=dict(cfg)))
                js.append(dict(base, name="%s/%s/wire" % (e.name, be), analysis="wire", cfg=dict(cfg)))
                if "trace" in e.tags:
                    # one circuit (constraints and output wire expression) whatever the input bits are
                    c1 = dict(cfg, want_ref=False)
                    js.append(dict(base, name="%s/%s/trace" % (e.name, be), analysis="trace", cfg=c1, cfgs=[c1]))
            else:
                js.append(dict(base, name="%s/%s" % (e.name, be), analysis="obs", cfg=dict(cfg)))
    # the constraint-less backend has a parameter set of its own (t, alpha, rounds differ): its permutation and sponge
    # must be the ones of *that* set
    for nm in ("perm_ref", "hash_ref_L1"):
        js.append(dict(entry=nm, backend="nobackend", tier=tier, pid=PID, catalogue="checks.cat_c20", weight=1,
                       name="%s/nobackend" % nm, analysis="obs", cfg=dict(n=4, r=2, guard=None, bound=None),
                       skip_tv=True))        # no recorder to compare; a model of chained cubes modulo 10000 does not come back
    # the third field: reference equality of the permutation only (quick)
    if tier == "quick":
        for e in CAT20.build(4, tier):
            if "ggh" in e.tags and "obs" in e.tags:
                js.append(dict(entry=e.name, backend=BACKENDS[2], tier=tier, pid=PID, catalogue="checks.cat_c20", weight=1,
                               name="%s/%s" % (e.name, BACKENDS[2]), analysis="obs", cfg=dict(n=4, r=2, guard=None, bound=None)))
        js.append(dict(entry="perm_ref", backend=BACKENDS[2], tier=tier, pid=PID, catalogue="checks.cat_c20", weight=3,
                       name="perm_ref/%s" % BACKENDS[2], analysis="obs", cfg=dict(n=4, r=2, guard=None, bound=None), job_timeout=600))
    return js


def run_job(env, spec):
    if spec["analysis"] == "obs":
        res = run_obs_job(PID, env, spec, lookup(spec), "checks.cat_c20")
        if ("perm" in spec["entry"] or "hash" in spec["entry"]) and res.get("paths", 0) != 1:
            res["errors"].append("%s: %d paths -- the gadget branches on its input values" % (spec["name"], res.get("paths", 0)))
        return res
    return dict(witness=c01, wire=c04, trace=c06)[spec["analysis"]].run_job(env, spec)


def main(argv):
    tier = C.tier()
    rep = C.Report(PID)
    rep.functions |= {"pysnark.poseidon_hash.permute/poseidon_hash/matmul/transpose and the parameter selection at import",
                      "pysnark.ggh_hash.ggh_hash/ggh_hash_nonplain/ggh_hash_plain/SHA512_prng", "LinComb.__pow__ (constant exponent)"}
    rep.bounds = dict(fields="zkinterface (BN254), zkifbellman (BLS12-381); Curve25519 permutation reference (quick) / everything (thorough)",
                      message_lengths="0,1,4,5 (quick) / 0..9 (thorough) elements = 1..3 blocks", padding_pairs="lengths 0..8 (quick) / 0..12",
                      subset_sum_bits="4 (quick) / 4,16", inputs="symbolic, unbounded")
    rep.assumptions = ["reference equality is decided by polynomial normal forms modulo p with hash-consed products; the reference mirrors "
                       "the S-box association order x*(x*(x*(x*x)))",
                       "published vectors: BN254 and BLS12-381 (the Curve25519 vector in the repository's test file repeats the BLS one)",
                       "hashlib/struct are trusted (SHA-512 coefficients recomputed independently)"]
    js = jobs(tier)
    if argv:
        js = [j for j in js if any(a in j["name"] for a in argv)]
    for r in C.run_jobs("c20", js):
        rep.absorb(r)
    if not argv:
        part_b(rep, tier, C.load_known(PID))
    return rep.finish("./check C20")
