#!/bin/sh
# re-confirm every stored seeded change against the current /repo HEAD and re-run its property's check, four at a time,
# each against its own scratch worktree (VERIF_REPO); rewrites seeded/*/meta.json.  /repo itself is not touched.
cd /verif
for d in seeded/*/; do
  n=$(basename $d)
  p=$(python3 -c "import json;m=json.load(open('$d/meta.json'));print(' '.join(dict.fromkeys([m['property']]+list(m.get('checks_run',{}).keys()))))")
  echo "/verif/$d $n $p"
done | xargs -P ${SWEEP_P:-4} -L 1 sh -c 'python3 /verif/tools/keep_seed.py --scratch "$@" 2>&1 | tail -1' sh
