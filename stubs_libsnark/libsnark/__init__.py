"""Recording stand-in for the libsnark Python extension (absent in this sandbox).  Only put on the path by the C19
rows that exercise the names 'libsnark' and 'libsnarkgg'; every other check keeps seeing libsnark as not installed."""
