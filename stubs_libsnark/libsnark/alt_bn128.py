"""libsnark.alt_bn128 stand-in: real linear combinations / constraints over the BN254 scalar field; the two proof-system
families (zk_* = PGHR13, zkgg_* = Groth16) only record that they were called."""
MOD = 21888242871839275222246405745257275088548364400416034343698204186575808495617
CALLS = []          # (family, function) in call order


def get_modulus():
    return MOD


def fieldinverse(val):
    return pow(val % MOD, MOD - 2, MOD)


class PbVariable:
    def __init__(self):
        self.index = None

    def allocate(self, pb, name=""):
        pb.nvars += 1
        self.index = pb.nvars


class LinearCombination:
    def __init__(self, arg=None):
        if arg is None:
            self.terms = {}
        elif isinstance(arg, PbVariable):
            self.terms = {arg.index: 1}
        elif isinstance(arg, int):
            self.terms = {0: arg} if arg else {}
        elif isinstance(arg, LinearCombination):
            self.terms = dict(arg.terms)
        else:
            raise TypeError(arg)

    def _mk(self, terms):
        r = LinearCombination()
        r.terms = {k: v % MOD for k, v in terms.items() if v % MOD}
        return r

    def __add__(self, o):
        o = o if isinstance(o, LinearCombination) else LinearCombination(o)
        t = dict(self.terms)
        for k, v in o.terms.items():
            t[k] = t.get(k, 0) + v
        return self._mk(t)
    __radd__ = __add__

    def __neg__(self):
        return self._mk({k: -v for k, v in self.terms.items()})

    def __sub__(self, o):
        o = o if isinstance(o, LinearCombination) else LinearCombination(o)
        return self + (-o)

    def __mul__(self, c):
        if not isinstance(c, int):
            return NotImplemented
        return self._mk({k: v * c for k, v in self.terms.items()})
    __rmul__ = __mul__

    def evaluate(self, vals):
        return sum(c * (1 if k == 0 else vals[k]) for k, c in self.terms.items()) % MOD


class R1csConstraint:
    def __init__(self, a, b, c):
        self.a, self.b, self.c = LinearCombination(a), LinearCombination(b), LinearCombination(c)


class _Vec:
    def __init__(self, xs):
        self.xs = list(xs)

    def size(self):
        return len(self.xs)

    def at(self, i):
        return self.xs[i]


class ProtoboardPub:
    def __init__(self):
        self.nvars = 0
        self.vals = {}
        self.public = []
        self.constraints = []

    def setval(self, pbv, val):
        self.vals[pbv.index] = val % MOD

    def val(self, pbv):
        return self.vals[pbv.index]

    def setpublic(self, pbv):
        self.public.append(pbv.index)

    def add_r1cs_constraint(self, c):
        self.constraints.append(c)

    def num_constraints(self):
        return len(self.constraints)

    def num_variables(self):
        return self.nvars

    def is_satisfied(self):
        return all(c.a.evaluate(self.vals) * c.b.evaluate(self.vals) % MOD == c.c.evaluate(self.vals) for c in self.constraints)

    def get_constraint_system_pubs(self):
        return self

    def primary_input_pubs(self):
        return _Vec(self.vals[i] for i in self.public)

    def auxiliary_input_pubs(self):
        return _Vec(self.vals[i] for i in sorted(self.vals) if i not in self.public)


class _Keypair:
    def __init__(self, fam):
        self.pk, self.vk, self.family = ("pk", fam), ("vk", fam), fam


def _family(fam):
    def rec(fn):
        def f(*a, **k):
            CALLS.append((fam, fn.__name__))
            return fn(fam, *a, **k)
        f.__name__ = fn.__name__
        return f
    return rec


def _read_key(fam, name, cs):
    return None


def _generator(fam, cs):
    return _Keypair(fam)


def _write_keys(fam, keypair, vkname, ekname):
    return None


def _prover(fam, pk, pubvals, privvals):
    return ("proof", fam, pk)


def _verifier_strong_IC(fam, vk, pubvals, proof):
    return vk[1] == fam and proof[1] == fam


def _write_proof(fam, proof, pubvals, name):
    return None


for _fam, _pre in (("pghr13", "zk_"), ("groth16", "zkgg_")):
    for _fn in (_read_key, _generator, _write_keys, _prover, _verifier_strong_IC, _write_proof):
        globals()[_pre + _fn.__name__[1:]] = _family(_fam)(_fn)


def ZKProvingKey_read(name):
    return None


def ZKVerificationKey_read(name):
    return None


def ZKProof_read(name):
    return None
