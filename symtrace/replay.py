"""Replay of solver models against the unmodified library, under the repository's own interpreter (no z3, no
injection).  usage: /venv/bin/python replay.py <replay.json>
exit 0 + 'REPRODUCED' : the violation described by the file shows on the real code
exit 3 + 'NOT-REPRODUCED' : it does not (the encoding or a stub is wrong -> harness error, never a verdict)
"""
import importlib
import json
import os
import sys

VERIF = os.path.dirname(os.path.dirname(os.path.abspath(__file__)))
sys.path.insert(0, VERIF)
sys.setrecursionlimit(20000)
if hasattr(sys, "set_int_max_str_digits"):
    sys.set_int_max_str_digits(0)


def yes(msg):
    print("REPRODUCED " + msg)
    sys.exit(0)


def no(msg):
    print("NOT-REPRODUCED " + msg)
    sys.exit(3)


def find_entry(spec):
    mod = importlib.import_module(spec.get("catalogue", "checks.catalogue"))
    ents = mod.by_name(spec["cfg"].get("n", 4), "thorough")
    return ents[spec["entry"]]


def ints(d):
    return {k: int(v) for k, v in d.items()}


def main():
    spec = json.load(open(sys.argv[1]))
    kind = spec["kind"]
    if kind.startswith("ext:"):
        # property-specific replayers live next to their checks
        mod = importlib.import_module(spec["module"])
        return mod.replay(spec, yes, no)
    from symtrace import env as ENV
    from symtrace.concrete import run_concrete, flat, lincomb_of, ev_concrete
    if spec.get("backend") == "none":
        env = ENV.Env(backend_name="none", symbolic=False, P=None, rec=None, mods=[], rt=None, bo=None, fx=None, br=None,
                      ar=None, pk=None, la=None, be=None, gm=None, am=None, created=[], track=False)
    else:
        env = ENV.load(spec.get("backend", "snarkjs"), symbolic=False)
    P = env.P
    if "cfg" not in spec:
        spec["cfg"] = spec["runs"][0]["cfg"]
    entry = find_entry(spec)
    cfg = dict(spec["cfg"])
    if isinstance(cfg.get("guard"), list):
        cfg["guard"] = tuple(cfg["guard"])

    def run(inputs):
        return run_concrete(env, entry, cfg, ints(inputs))

    def unsat_constraints(out, priv=None):
        priv = out["priv"] if priv is None else priv
        bad = []
        for i, (a, b, c) in enumerate(out["cons"]):
            if (ev_concrete(a, out["pub"], priv, P) * ev_concrete(b, out["pub"], priv, P)
                    - ev_concrete(c, out["pub"], priv, P)) % P != 0:
                bad.append(i)
        return bad

    if kind == "obs":
        out = run(spec["inputs"])
        if out["outcome"] != "ok":
            if spec.get("label") == "<raise>":
                yes("harness raises %r on %s" % (out["exc"], spec["inputs"]))
            no("run raised %r" % (out["exc"],))
        bad = []
        for label, c in out["result"]:
            if type(c) is tuple and c[0] == "eq":
                okc = (c[1] == c[2])
            elif type(c) is tuple and c[0] == "cong":
                okc = ((c[1] - c[2]) % P == 0)
            else:
                okc = bool(c)
            if not okc:
                bad.append(label)
        if bad:
            yes("claims %s fail on inputs %s" % (bad[:4], spec["inputs"]))
        no("all claims hold")

    if kind == "c01":
        out = run(spec["inputs"])
        if out["outcome"] != "ok":
            no("run raised %r" % (out["exc"],))
        bad = unsat_constraints(out)
        if bad:
            yes("constraints %s not satisfied by the recorded witness on inputs %s" % (bad[:5], spec["inputs"]))
        no("all %d constraints satisfied" % len(out["cons"]))

    if kind == "c04":
        out = run(spec["inputs"])
        if out["outcome"] != "ok":
            no("run raised %r" % (out["exc"],))
        for i, o in enumerate(flat(out["result"])):
            lc = lincomb_of(o)
            if lc is None:
                continue
            w = ev_concrete(lc.lc.lc, out["pub"], out["priv"], P)
            if (lc.value - w) % P != 0:
                yes("result %d reports value %d but its wire expression evaluates to %d on inputs %s" % (
                    i, lc.value, w, spec["inputs"]))
        no("every returned value is congruent to its wire expression")

    if kind == "c05_value":
        out = run(spec["inputs"])
        if out["outcome"] != "ok":
            no("run raised %r" % (out["exc"],))
        if out["ref"] is None or out["ref"][0] != "ok":
            no("python reference raised: %r" % (out["ref"],))
        got = []
        for o in flat(out["result"]):
            lc = lincomb_of(o)
            got.append(lc.value if lc is not None else o)
        want = [int(x) for x in flat(out["ref"][1])]
        if len(got) != len(want):
            if spec.get("shape"):
                yes("the operation returns %d values where Python gives %d on inputs %s" % (len(got), len(want), spec["inputs"]))
            no("shape mismatch %s vs %s" % (got, want))
        if spec.get("shape"):
            no("shapes agree")
        for i, (g, w) in enumerate(zip(got, want)):
            if g != w:
                yes("leaf %d: traced value %s but Python gives %s on inputs %s" % (i, g, w, spec["inputs"]))
        no("values agree: %s" % (got,))

    if kind == "c05_raise":
        out = run(spec["inputs"])
        if out["outcome"] == "exc":
            k = out["kit"]
            k.vals = ints(spec["inputs"])
            if entry.dom is not None and bool(entry.dom(k)):
                yes("in-domain inputs %s raise %r" % (spec["inputs"], out["exc"]))
            no("inputs are not in the documented domain")
        no("run completed")

    if kind == "c06":
        outs = []
        for rn in spec["runs"]:
            c = dict(rn["cfg"])
            if isinstance(c.get("guard"), list):
                c["guard"] = tuple(c["guard"])
            outs.append(run_concrete(env, entry, c, ints(rn["inputs"])))
        a, b = outs
        if a["outcome"] != "ok" or b["outcome"] != "ok":
            no("a run raised: %r / %r" % (a["exc"], b["exc"]))

        def canon(out):
            cl = lambda lc: tuple(sorted((k, v % P) for k, v in lc.items() if v % P))
            cons = tuple((cl(x), cl(y), cl(z)) for x, y, z in out["cons"])
            res = []
            if out["outcome"] == "ok":
                for o in flat(out["result"]):
                    lc = lincomb_of(o)
                    res.append(("lc", cl(lc.lc.lc)) if lc is not None else ("plain",))
            if not spec.get("trace_results", True):
                res = []
            return (len(out["pub"]), len(out["priv"]), cons, tuple(res))
        ca, cb = canon(a), canon(b)
        if ca != cb:
            what = "variable counts" if ca[:2] != cb[:2] else ("constraints" if ca[2] != cb[2] else "result wires")
            yes("%s differ between runs %s" % (what, spec["runs"]))
        no("traces identical")

    if kind in ("c02", "c03_rejected_provable"):
        out = run(spec["inputs"])
        if kind == "c02" and out["outcome"] != "ok":
            no("honest run raised %r" % (out["exc"],))
        if kind == "c03_rejected_provable":
            # the honest run (errors on) must reject these operands ...
            hon = out
            if spec.get("honest_cfg"):
                hon = run_concrete(env, entry, spec["honest_cfg"], {k: v for k, v in ints(spec["inputs"]).items()
                                                                     if not k.startswith("g")})
            if hon["outcome"] == "ok":
                no("operands are accepted at run time")
            if spec.get("struct_ignore", True):
                cfg_i = dict(cfg); cfg_i["ignore"] = True
                out = run_concrete(env, entry, cfg_i, ints(spec["inputs"]))
                if out["outcome"] != "ok":
                    no("ignore_errors run raised %r" % (out["exc"],))
            else:
                # constructors that raise even under ignore_errors: structure of an accepted run (value 0 or 1)
                acc = {k: 0 for k in spec["inputs"]}
                out = run_concrete(env, entry, cfg, acc)
                kk = out["kit"]
                for nm, key in kk.operands:
                    (out["pub"] if key[0] == "pub" else out["priv"])[key[1]] = int(spec["inputs"][nm])
        priv = list(out["priv"])
        for idx, v in spec["adversarial"].items():
            priv[int(idx)] = int(v)
        bad = unsat_constraints(out, priv)
        if bad:
            no("adversarial witness violates constraints %s" % bad[:5])
        if kind == "c03_rejected_provable":
            yes("operands %s are rejected by the run-time check yet the emitted constraints are satisfied by witness %s"
                % (spec["inputs"], spec["adversarial"]))
        for i, o in enumerate(flat(out["result"])):
            lc = lincomb_of(o)
            if lc is None:
                continue
            w = ev_concrete(lc.lc.lc, out["pub"], priv, P)
            if (lc.value - w) % P != 0:
                yes("operands %s: second satisfying witness gives result %d = %d instead of %d" % (
                    spec["inputs"], i, w, lc.value % P))
        no("adversarial witness yields the honest results")

    if kind == "c03_accepted_false":
        out = run(spec["inputs"])
        if out["outcome"] != "ok":
            no("run raised")
        k = out["kit"]
        if not bool(entry.ref(k)):
            yes("operands %s accepted although the asserted relation is false" % spec["inputs"])
        no("relation holds")

    if kind == "c03_accepted_unsat":
        out = run(spec["inputs"])
        if out["outcome"] != "ok":
            no("run raised")
        bad = unsat_constraints(out)
        if bad:
            yes("accepted operands %s leave constraints %s unsatisfied" % (spec["inputs"], bad[:5]))
        no("satisfied")

    if kind == "c07_raise":
        out = run(spec["inputs"])
        if out["outcome"] == "exc":
            yes("under a false guard inputs %s raise %r" % (spec["inputs"], out["exc"]))
        no("completed")

    if kind == "c07_transparent":
        out = run(spec["inputs"])
        cfg_p = dict(cfg); cfg_p["guard"] = None
        ins = ints(spec["inputs"])
        plain = run_concrete(env, entry, cfg_p, ins)
        if out["outcome"] != plain["outcome"]:
            yes("guard=1 outcome %s (%r) vs unguarded %s (%r) on %s" % (out["outcome"], out["exc"], plain["outcome"],
                                                                      plain["exc"], spec["inputs"]))
        if out["outcome"] == "exc":
            if type(out["exc"]) is not type(plain["exc"]):
                yes("different exception types %r vs %r" % (out["exc"], plain["exc"]))
            no("same exception")
        va = [lincomb_of(o).value if lincomb_of(o) is not None else o for o in flat(out["result"])]
        vb = [lincomb_of(o).value if lincomb_of(o) is not None else o for o in flat(plain["result"])]
        if va != vb:
            yes("values differ under a true guard: %s vs %s on %s" % (va, vb, spec["inputs"]))
        no("same values")

    no("unknown replay kind %s" % kind)


if __name__ == "__main__":
    main()
