"""Loading the real pysnark modules from /repo under a chosen backend, with or without the symbolic injection.

Used both by the engine side (python3-vt, symbolic=True) and by the replay side (/venv/bin/python, symbolic=False,
no z3 import).  One process = one backend, because pysnark.runtime selects its backend once at import.
"""
import os
import sys
import types
import warnings

REPO = os.environ.get("VERIF_REPO", "/repo")
VERIF = os.path.dirname(os.path.dirname(os.path.abspath(__file__)))

BACKEND_MODULES = {
    "snarkjs": "pysnark.snarkjsbackend",
    "zkinterface": "pysnark.zkinterface.backend",
    "zkifbellman": "pysnark.zkinterface.backendbellman",
    "zkifbulletproofs": "pysnark.zkinterface.backendbulletproofs",
    "qaptools": "pysnark.qaptools.backend",
    "nobackend": "pysnark.nobackend",
}


class Env(types.SimpleNamespace):
    pass


_ENV = None


def load(backend="snarkjs", symbolic=False, quiet=True):
    """import pysnark from REPO with PYSNARK_BACKEND=backend; returns an Env namespace of modules"""
    global _ENV
    if _ENV is not None:
        if _ENV.backend_name != backend or _ENV.symbolic != symbolic:
            raise RuntimeError("one process, one backend: already loaded %s" % _ENV.backend_name)
        return _ENV
    if REPO not in sys.path:
        sys.path.insert(0, REPO)
    os.environ["PYSNARK_BACKEND"] = backend
    warnings.simplefilter("ignore")
    if backend.startswith("zkif") or backend == "zkinterface":
        stub = os.path.join(VERIF, "stubs")
        if stub not in sys.path:
            sys.path.insert(0, stub)
    if backend == "qaptools":
        os.environ.setdefault("QAPTOOLS_BIN", os.path.join(VERIF, "stubs", "qaptools_bin"))
        import atexit, shutil, tempfile
        d = tempfile.mkdtemp(prefix="verif_qap_")
        atexit.register(shutil.rmtree, d, True)
        os.environ["PYSNARK_KEYDIR"] = d          # every file the backend writes goes to a per-process scratch directory
        os.environ["PYSNARK_PROOFDIR"] = d
    saved_stdout = sys.stdout
    import pysnark.runtime as rt
    if rt.backend_name != backend:
        raise RuntimeError("backend %s requested but %s in effect" % (backend, rt.backend_name))
    import pysnark.boolean as bo
    import pysnark.fixedpoint as fx
    import pysnark.branching as br
    import pysnark.array as ar
    import pysnark.linalg as la
    import pysnark.pack as pk
    import pysnark.gmpy as gm
    import pysnark.atexitmaybe as am
    be = rt.backend
    # never prove at interpreter exit from a harness process
    rt.autoprove = False
    if not hasattr(be, "process_snark"):
        be.process_snark = None
    e = Env(rt=rt, bo=bo, fx=fx, br=br, ar=ar, la=la, pk=pk, gm=gm, am=am, be=be, backend_name=backend,
            symbolic=symbolic, P=be.get_modulus(), mods=[rt, bo, fx, br, ar, la, pk, gm, am, be])
    if be.__name__ != BACKEND_MODULES[backend] and not backend.startswith("zkif"):
        raise RuntimeError("backend module mismatch")
    if backend.startswith("zkif"):
        # the derived modules re-export the base recorder; the lists live in the base module
        import pysnark.zkinterface.backend as zb
        e.rec = zb
        e.mods.append(zb)
    else:
        e.rec = be
    install_tracking(e)
    if backend in ("snarkjs", "zkinterface", "zkifbellman", "zkifbulletproofs"):
        install_capture(e, [e.rec])
    if symbolic:
        from . import engine
        engine.inject(*e.mods)
        engine.ENG.modulus = e.P
        engine.ENG.tokenize_str = (backend == "qaptools")
        install_bool_summaries(e, engine)
    # abandoned paths leave half-open branch contexts behind; their destructor only prints "unclosed branches left"
    # when the garbage collector finds them (not part of any property): silenced
    if hasattr(br, "BranchingValues") and hasattr(br.BranchingValues, "__del__"):
        br.BranchingValues.__del__ = lambda self: None
    e.modstate = {}
    track_modules(e, e.mods)
    _ENV = e
    return e


_CONTAINERS = (list, dict, set)


def _copy_of(obj):
    return list(obj) if type(obj) is list else (dict(obj) if type(obj) is dict else set(obj))


def _same(obj, cp):
    if len(obj) != len(cp):
        return False
    if type(obj) is list:
        return all(a is b for a, b in zip(obj, cp))
    if type(obj) is dict:
        return all((k in obj and obj[k] is v) for k, v in cp.items())
    return obj == cp


def track_modules(e, mods):
    """every run under test stands for a fresh interpreter: remember the contents of the module-level (and class-level)
    lists/dicts/sets of the library as they are right after import, so that reset() can put them back.  What a run leaves
    in such a container therefore never reaches the next run; sequences *inside* one run see it (that is what the
    multi-call harnesses exercise)."""
    import inspect
    for m in mods:
        if m is None or m.__name__ in e.modstate:
            continue
        st = []
        owners = [m] + [c for c in vars(m).values() if inspect.isclass(c) and getattr(c, "__module__", None) == m.__name__]
        for owner in owners:
            for attr, obj in list(vars(owner).items()):
                if type(obj) in _CONTAINERS and not attr.startswith("__"):
                    st.append((obj, _copy_of(obj)))
        e.modstate[m.__name__] = st


def clear_function_caches(e):
    """functools caches on library functions/methods are emptied as well (a fresh interpreter has none)"""
    import inspect
    import sys
    for name in list(getattr(e, "modstate", {})):
        m = sys.modules.get(name)
        if m is None:
            continue
        owners = [m] + [c for c in vars(m).values() if inspect.isclass(c) and getattr(c, "__module__", None) == name]
        for owner in owners:
            for attr, obj in list(vars(owner).items()):
                f = getattr(obj, "__func__", obj)
                cc = getattr(f, "cache_clear", None)
                if callable(cc):
                    try:
                        cc()
                    except Exception:
                        pass


def restore_modules(e):
    clear_function_caches(e)
    for st in getattr(e, "modstate", {}).values():
        for obj, cp in st:
            if not _same(obj, cp):
                if type(obj) is list:
                    obj[:] = cp
                else:
                    obj.clear()
                    obj.update(cp)


class RecFile:
    """stand-in for a binary/text file: keeps what was written as a list of chunks (bytes, SymBytes, str, Message)"""

    def __init__(self, store, name, mode):
        self.name, self.mode = name, mode
        self.chunks = []
        store.setdefault(name, []).append(self)
        self.closed = False

    def write(self, b):
        self.chunks.append(b)

    def flush(self):
        pass

    def close(self):
        self.closed = True

    def __enter__(self):
        return self

    def __exit__(self, *a):
        self.close()


class SymBytes(list):
    """bytes([...]) with possibly symbolic elements"""


def install_capture(e, mods):
    """route open()/bytes() of the given backend modules into e.files (no real files are written)"""
    import builtins
    e.files = {}

    def rec_open(name, mode="r", *a, **kw):
        if "w" in mode:
            return RecFile(e.files, str(name), mode)
        return builtins.open(name, mode, *a, **kw)

    def rec_bytes(x=b"", *a, **kw):
        if isinstance(x, list) and not a and not kw:
            if all(type(v) is int for v in x):
                return builtins.bytes(x)
            return SymBytes(x)
        return builtins.bytes(x, *a, **kw)
    for m in mods:
        m.open = rec_open
        m.bytes = rec_bytes
        m.print = lambda *a, **k: None


def install_tracking(e):
    """observation point (no source edit): every runtime.LinComb constructed is appended to e.created while
    e.track is on -- used by C04 to check value = wire on ALL intermediate objects"""
    e.created = []
    e.track = False
    LC = e.rt.LinComb
    orig_init = LC.__init__

    def __init__(self, value, lc):
        orig_init(self, value, lc)
        if e.track:
            e.created.append(self)
    LC.__init__ = __init__


def install_bool_summaries(e, engine):
    """LinCombBool.is_boolean_value / parse_boolean fork 2^n ways on bit lists; replace by merged versions
    (one branch on v in {0,1}).  The originals are kept for the summary-equivalence check."""
    import z3
    LCB = e.bo.LinCombBool
    e.orig_is_boolean_value = LCB.__dict__["is_boolean_value"].__func__
    e.orig_parse_boolean = LCB.__dict__["parse_boolean"].__func__

    def is_boolean_value(cls, val):
        if type(val) is engine.SymInt:
            return bool(engine.SymBool(z3.Or(val.t == 0, val.t == 1)))
        if type(val) is engine.SymBool:
            return True
        return e.orig_is_boolean_value(cls, val)

    def parse_boolean(cls, val):
        if type(val) is engine.SymInt:
            if engine.SymBool(z3.Or(val.t == 0, val.t == 1)):
                return val
            raise ValueError("LinCombBool can only take Boolean values")
        if type(val) is engine.SymBool:
            return engine.SymInt(engine.T(val))
        return e.orig_parse_boolean(cls, val)

    LCB.is_boolean_value = classmethod(is_boolean_value)
    LCB.parse_boolean = classmethod(parse_boolean)
    e.summaries_installed = True


def reset(e, bitlength=None, resolution=None):
    """fresh recorder and runtime state (between paths / harnesses)"""
    if e.rt is None:
        return
    restore_modules(e)
    rec = e.rec
    if hasattr(rec, "privvals"):
        rec.privvals.clear()
        rec.pubvals.clear()
        rec.constraints.clear()
    rt = e.rt
    if hasattr(e, "files"):
        e.files.clear()
    del e.created[:]
    rt.guard = None
    rt._ignore_errors = False
    rt.LinComb.ONE = rt.LinComb.ONE_SAFE
    rt.num_constraints = 0
    if bitlength is not None:
        rt.bitlength = bitlength
    if resolution is not None:
        e.fx.resolution = resolution


def snapshot(e):
    """copy of what the recorder holds: (pubvals, privvals, constraints as 3 dicts var->coeff)"""
    rec = e.rec
    if rec is None or not hasattr(rec, "pubvals"):
        return ([], [], [])            # file-based backend (qaptools): nothing recorded in memory
    return (list(rec.pubvals), list(rec.privvals),
            [[dict(c[0].lc), dict(c[1].lc), dict(c[2].lc)] for c in rec.constraints])
