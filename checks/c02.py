"""C02 soundness: with the operand wires fixed to their values, no assignment of the auxiliary witness satisfies the
emitted constraints while giving a different result (DESIGN 3, route A).  Boolean-typed results are forced to 0/1."""
import z3

from symtrace import engine as E, harness as H, oblig as O
from symtrace.r1cs import Sys
from symtrace.concrete import flat, lincomb_of
from . import catalogue as CAT
from . import common as C
from .catjob import lookup, Job
from .c01 import is_heavy, is_very_heavy

PID = "C02"


def selected(e):
    if e.ref is None and "val" not in e.tags:
        return False
    if "assert" in e.tags:
        return False
    return True


def jobs(tier):
    js = []
    ns = [4] if tier == "quick" else [4, 8, 16]
    for n in ns:
        ents = CAT.build(n, tier if n == 4 else "quick")
        bound = (1 << 64) if tier == "quick" else (1 << 120)
        for e in ents:
            if not selected(e):
                continue
            if is_heavy(e) and n > 4:
                continue
            if is_very_heavy(e) and tier == "quick":
                continue          # secret exponents / shift counts: 2^n paths; decided at n = 4 only (stated bound)
            if n > 4 and ("arr" in e.tags or "comp" in e.tags):
                continue
            js.append(dict(name="%s/n%d/plain" % (e.name, n), entry=e.name, backend="snarkjs",
                           cfg=dict(n=n, r=2, guard=None, bound=bound), tier=tier, weight=n * (4 if "arr" in e.tags else 1)))
    from .c01 import PRELUDE_SUBSET
    for e in CAT.build(4, "quick"):
        if e.name in PRELUDE_SUBSET and selected(e):
            for pre in (["false_region"], ["aborted_region"], ["self_first"]):
                js.append(dict(name="%s/n4/after-%s" % (e.name, pre[0]), entry=e.name, backend="snarkjs",
                               cfg=dict(n=4, r=2, guard=None, bound=(1 << 64), prelude=pre), tier=tier, weight=2))
    # block-API programs and lazy selection with comparing branches: the final variables are uniquely determined
    from . import cat_c09
    for e in cat_c09.build(8, tier):
        if "c09out" in e.tags and e.tags & {"if_else", "elif", "elif2", "elif_cmp", "lazy", "lazy_cmp_branches", "nested", "for_pub_secretbreak", "for_break"}:
            js.append(dict(name="%s/n4/plain" % e.name, entry=e.name, backend="snarkjs", catalogue="checks.cat_c09",
                           cfg=dict(n=4, r=2, guard=None, bound=None), tier=tier, weight=4))
    return js


def build_system(env, t, cfg, tag="w"):
    pubt, privt = H.wire_terms(t)
    fixed, bounds = {}, {}
    M = cfg.get("bound")
    for nm, key in t.operands:
        fixed[key] = (pubt if key[0] == "pub" else privt)[key[1]]
        if M is not None:
            bounds[key] = (-M + 1, M - 1)
    return Sys(env.P, len(t.pub), len(t.priv), t.cons, fixed, tag=tag, bounds=bounds)


def soundness_goal(env, t, sysm):
    """disjunction: some returned secret differs (mod p) from its honest value, or a boolean-typed one is not 0/1"""
    P = env.P
    alts, names = [], {}
    for i, o in enumerate(flat(t.result)):
        lc = lincomb_of(o)
        if lc is None:
            continue
        R = sysm.lc_term(lc.lc.lc)
        names["res%d" % i] = R % P
        alts.append((R - E.T(lc.value)) % P != 0)
        if type(o).__name__ == "LinCombBool":
            alts.append(z3.And(R % P != 0, R % P != 1))
    return alts, names


def adversarial_assignment(m, sysm, t):
    adv = {}
    values = {}
    for key, v in sysm.w.items():
        val = H.model_eval_int(m, v)
        values[key] = val
        if key not in sysm.fixed and key[0] == "priv":
            adv[str(key[1])] = val
    return adv, values


def run_job(env, spec):
    entry = lookup(spec)
    job = Job(spec.get("pid", PID), env, spec, entry, spec.get("catalogue", "checks.catalogue"))
    job.cfg["want_ref"] = False
    twin_done = False
    for t in job.explore():
        if not t.path.ok:
            continue
        pi = t.extra["idx"]
        if not any(lincomb_of(o) is not None for o in flat(t.result)):
            continue
        try:
            sysm = build_system(env, t, job.cfg)
        except ValueError as ex:
            job.res["errors"].append("%s: %s" % (job.name, ex))
            continue
        pubt, privt = H.wire_terms(t)
        honest = {("pub", i): x for i, x in enumerate(pubt)}
        honest.update({("priv", i): x for i, x in enumerate(privt)})
        slv = lambda f, g: H.solve(f, g, job.timeout)
        nfix = sysm.propagate(honest, t.path.facts(), slv)
        if is_heavy(entry) and len(sysm.free_wires()) > 12:
            # composite gadgets (powers and shifts by a secret): determine wires step by step (route B)
            step = lambda f, g: H.solve(f, g, 4000)
            nfix += sysm.propagate_semantic(honest, [t.path.facts(linear_only=True)], step, window=job.cfg["n"] + 2)
        alts, names = soundness_goal(env, t, sysm)
        lemmas = []
        if job.cfg["n"] >= 8:
            lemmas = O.bit_lemmas(t.path, sorted({job.cfg["n"], job.cfg["n"] + 1, job.cfg["n"] - 1})) + sysm.uniqueness_lemmas(t.path)
        enc = sysm.encode() + lemmas
        facts = t.path.facts() + enc
        goal = z3.Or(alts)
        # without the non-linear definitions of honest products first (a subset of the facts is sound for unsat and keeps
        # the query in linear arithmetic); only a sat answer is re-examined under the full facts to obtain a real model
        st, m = "sat", None
        if t.path.prod_axiom_ids:
            st, m = H.solve(t.path.facts(linear_only=True) + enc, goal, job.timeout,
                            label="C02 %s path %d second-witness (linear facts)" % (job.name, pi))
        if st != "unsat":
            st, m = H.solve(facts, goal, job.timeout, label="C02 %s path %d second-witness" % (job.name, pi))
        if st == "unknown":
            # fall back to step-by-step determinacy (route B) and ask again on what is left
            step = lambda f, g: H.solve(f + lemmas, g, 8000)
            sysm.propagate_semantic(honest, [t.path.facts(linear_only=True)], step, window=job.cfg["n"] + 2)
            alts, names = soundness_goal(env, t, sysm)
            goal = z3.Or(alts)
            enc = sysm.encode() + lemmas
            facts = t.path.facts() + enc
            st, m = H.solve(t.path.facts(linear_only=True) + enc, goal, job.timeout, label="C02 %s path %d after route B" % (job.name, pi))
            if st == "sat":
                st, m = H.solve(facts, goal, job.timeout)
        job.obligation(st)
        if st == "unknown":
            job.inconclusive("path %d: solver unknown (%s)" % (pi, m))
        elif st == "sat":
            def remodel(mm):
                adv, values = adversarial_assignment(mm, sysm, t)
                return dict(inputs=H.model_inputs(mm, job.vals), adversarial=adv)
            rm = remodel(m)
            adv, values = adversarial_assignment(m, sysm, t)
            bad = sysm.check_model(values)
            if bad:
                job.res["errors"].append("%s: model fails exact validation on constraints %s" % (job.name, bad[:4]))
                continue
            job.finding("c02", "second satisfying witness with a different result for operands %s" % (rm["inputs"],),
                        dict(kind="c02", inputs=rm["inputs"], adversarial=rm["adversarial"]),
                        facts=facts, goal=goal, model=m, extra_ns=names, remodel=remodel)
        if not twin_done and t.cons:
            # vacuity twin: drop the last constraint that mentions a free wire; a second witness must appear
            frees = set(sysm.free_wires())
            idxs = [i for i, c in enumerate(t.cons) if any(Sys.key_of(k) in frees for part in c for k in part)]
            if idxs:
                keep = set(range(len(t.cons))) - {idxs[-1]}
                st2, _ = H.solve(t.path.facts() + sysm.encode(only=keep), goal, job.timeout)
                job.twin(st2 == "sat")
                twin_done = True
        job.sample(dict(path=pi, constraints=len(t.cons), free_wires=len(sysm.free_wires()), determined_by_propagation=nfix, boolean_wires=len(sysm.bools),
                        result=st, path_condition=[str(z3.simplify(c))[:100] for c in t.path.pc[:3]]))
    return job.done()


def main(argv):
    tier = C.tier()
    rep = C.Report(PID)
    rep.functions |= {"pysnark.runtime.LinComb: * / // % divmod & | ^ ~ abs comparisons check_zero/check_nonzero/check_positive "
                      "to_bits/from_bits if_else val", "pysnark.boolean.LinCombBool operators", "pysnark.branching.if_then_else",
                      "pysnark.array.Array.__getitem__/__setitem__"}
    rep.bounds = dict(bitlength=[4] if tier == "quick" else [4, 8, 16],
                      operand_magnitude="< 2^64" if tier == "quick" else "< 2^120",
                      adversary="every non-operand wire is a free field element in [0,p)",
                      secret_exponents_and_shift_counts="<< ** >> by a secret at bitlength 4 only")
    rep.assumptions = ["wires uniquely determined by a multiplication gate / division by a provably non-zero factor are fixed "
                       "to their honest hints (uses C01: the honest witness satisfies the constraints)",
                       "operands restricted to the path condition of a completed honest run",
                       "integer encoding of field congruences (exact; interval arithmetic only replaces L=0 mod p by L=0 when |L|<p)"]
    js = jobs(tier)
    if argv:
        js = [j for j in js if any(a in j["name"] for a in argv)]
    for r in C.run_jobs("c02", js):
        rep.absorb(r)
    return rep.finish("./check C02")
