"""C18 part B rows: one subprocess per (backend, way of terminating, statement position, autoprove).  No z3 import:
this module is also loaded by the replay interpreter (/venv/bin/python)."""
import os
import shutil
import subprocess
import tempfile

from . import common as C

REPLAY_PY = C.REPLAY_PY

SCRIPT = r'''
import os, sys
%(pre)s
import pysnark.runtime as rt
from pysnark.runtime import PrivVal, PubVal
rt.autoprove = %(autoprove)s
stmts = [lambda: PrivVal(3) * PrivVal(4), lambda: (PrivVal(5) + 2).val(), lambda: PrivVal(7).assert_eq(7)]
pos = %(pos)d
def terminate():
    %(event)s
for i, s in enumerate(stmts):
    if i == pos:
        terminate()
    s()
if pos == len(stmts):
    terminate()
'''

EVENTS = {
    # name: (python statement, expected status, kind for the model)
    "falloff": ("pass", 0),
    "sys_exit_none": ("sys.exit()", 0),
    "sys_exit_0": ("sys.exit(0)", 0),
    "sys_exit_3": ("sys.exit(3)", 3),
    "sys_exit_255": ("sys.exit(255)", 255),
    "sys_exit_true": ("sys.exit(True)", 1),
    "sys_exit_false": ("sys.exit(False)", 0),
    "sys_exit_str": ("sys.exit('boom')", 1),
    "sys_exit_empty_str": ("sys.exit('')", 1),
    "sys_exit_float0": ("sys.exit(0.0)", 1),
    "sys_exit_list": ("sys.exit([])", 1),
    "caught_exit0_then_exit3": ("\n    try:\n        sys.exit(0)\n    except SystemExit:\n        pass\n    sys.exit(3)", 3),
    "caught_exit3_then_exit0": ("\n    try:\n        sys.exit(3)\n    except SystemExit:\n        pass\n    sys.exit(0)", 0),
    "caught_exit0_then_falloff": ("\n    try:\n        sys.exit(0)\n    except SystemExit:\n        pass", 0),
    "caught_exit3_then_falloff": ("\n    try:\n        sys.exit(3)\n    except SystemExit:\n        pass", 0),
    "caught_exit0_then_exception": ("\n    try:\n        sys.exit(0)\n    except SystemExit:\n        pass\n    raise RuntimeError('x')", 1),
    "caught_exit0_then_keyboardinterrupt": ("\n    try:\n        sys.exit()\n    except SystemExit:\n        pass\n    raise KeyboardInterrupt()", -2),
    "raise_systemexit_0": ("raise SystemExit(0)", 0),
    "raise_systemexit_none": ("raise SystemExit()", 0),
    "raise_systemexit_2": ("raise SystemExit(2)", 2),
    "builtin_exit_2": ("exit(2)", 2),
    "exception": ("raise RuntimeError('x')", 1),
    "exception_falsy": ("raise type('EmptyReport', (Exception,), {'__len__': lambda self: 0})()", 1),
    "keyboardinterrupt": ("raise KeyboardInterrupt()", -2),      # CPython re-raises SIGINT: the process dies by signal 2
    "os_exit_0": ("os._exit(0)", 0),
}
ARTEFACTS = {"snarkjs": ["witness.wtns", "circuit.r1cs"], "zkinterface": ["computation.zkif", "circuit.zkif"],
             "qaptools": ["pysnark_schedule"]}


def run_row(args):
    backend, ev, pos, autoprove = args
    stmt, want_status = EVENTS[ev]
    d = tempfile.mkdtemp(prefix="verif_c18_")
    try:
        env = dict(os.environ)
        env["PYTHONPATH"] = C.REPO
        env["PYSNARK_BACKEND"] = backend
        pre = ""
        if backend == "zkinterface":
            env["PYTHONPATH"] = os.path.join(C.VERIF, "stubs") + os.pathsep + C.REPO
            # the recording stand-in returns Message objects; make them writable
            pre = "import flatbuffers\nflatbuffers.Message.__bytes__ = lambda self: b'zkif'\nimport builtins\n" \
                  "_o = builtins.open\nclass _F:\n    def __init__(s, f): s.f = f\n    def write(s, b): s.f.write(bytes(b))\n" \
                  "    def close(s): s.f.close()\nimport pysnark.zkinterface.backend as zb\nzb.open = lambda n, m: _F(_o(n, m))\n"
        if backend == "qaptools":
            env["QAPTOOLS_BIN"] = os.path.join(C.VERIF, "stubs", "qaptools_bin")
        src = SCRIPT % dict(pre=pre, autoprove=autoprove, pos=pos, event=stmt)
        open(os.path.join(d, "s.py"), "w").write(src)
        p = subprocess.run([REPLAY_PY, "s.py"], cwd=d, env=env, capture_output=True, text=True, timeout=120)
        arte = [a for a in ARTEFACTS[backend] if os.path.exists(os.path.join(d, a))]
        hook_failed = "Exception ignored in atexit" in p.stderr or "Error in atexit" in p.stderr
        return dict(backend=backend, event=ev, pos=pos, autoprove=autoprove, status=p.returncode, want_status=want_status,
                    artefacts=arte, hook_failed=hook_failed, skipped=("skipping proof generation" in p.stderr),
                    stderr=p.stderr[-300:])
    finally:
        shutil.rmtree(d, ignore_errors=True)



def replay(spec, yes, no):
    r = run_row(tuple(spec["row"]))
    complete = sorted(r["artefacts"]) == sorted(ARTEFACTS[r["backend"]])
    should = (r["status"] == 0 and r["autoprove"] and not r["event"].startswith("os_exit"))
    good = (complete if should else not r["artefacts"]) and not r["hook_failed"]
    if good:
        no("row behaves: %s" % {k: v for k, v in r.items() if k != "stderr"})
    yes("%s/%s at statement %d autoprove=%s: exit status %d, artefacts %s, hook_failed=%s" % (
        r["backend"], r["event"], r["pos"], r["autoprove"], r["status"], r["artefacts"], r["hook_failed"]))


