"""C12 harnesses: the real qaptools backend writes its text files into a scratch directory (tools replaced by failing
stand-ins); an independent evaluator of the equation grammar checks them."""
import os
from .catalogue import Entry


class Tok:
    """symbolic values are rendered into the text files as tokens; this registry maps them back"""
    reg = {}


def fresh_backend(k):
    """reset the module-level state of the backend so that one process can run many programs"""
    be = k.env.be
    import pysnark.qaptools.qapsplit as qs
    for f in (be.qape, be.qapv, be.qapvo):
        try:
            if f is not None:
                f.close()
        except Exception:
            pass
    be.vc_ctx = None
    be.vc_ctr = dict()
    be.vc_ioctr = dict()
    be.qape = be.qapv = be.qapvo = None
    qs.eqs = dict()
    qs.blocks = dict()
    d = be.options.datadir
    for fn in os.listdir(d):
        try:
            os.remove(os.path.join(d, fn))
        except OSError:
            pass
    # randomness: arbitrary field elements (fresh symbolic under the engine, a fixed sequence otherwise)
    ctr = [0]

    class Rnd:
        def randint(self, a, b):
            ctr[0] += 1
            if k.env.symbolic:
                from symtrace import engine as E
                import z3
                v = E.ENG.fresh("rnd")
                E.ENG.add_axiom(z3.And(v >= a, v <= b))
                return E.SymInt(v)
            return a + (ctr[0] * 7919) % (b - a + 1)
    be.random = Rnd()
    return be


def parse_value(tok, env):
    tok = tok.strip()
    if tok.startswith("<<S"):
        from symtrace import engine as E
        return E.SymInt(E.ENG.tokens[int(tok[3:-2])])
    return int(tok)


def read_wires(path, env):
    out = {}
    if not os.path.exists(path):
        return out
    for ln in open(path):
        ln = ln.strip()
        if not ln or ln[0] == "#":
            continue
        nm, _, val = ln.partition(":")
        out[nm.strip()] = parse_value(val, env)
    return out


def parse_lc(toks):
    if len(toks) % 2:
        raise ValueError("odd number of tokens in a linear combination: %s" % (toks,))
    return [(int(toks[i]), toks[i + 1]) for i in range(0, len(toks), 2)]


def parse_eqs(path):
    """returns list of records: ('function', fname, call) | ('ioblock', ctx, bn, wires) | ('glue', c1, b1, c2, b2) |
    ('external', ...) | ('mul', A, B, C) | ('lin', L)"""
    recs = []
    for ln in open(path):
        ln = ln.strip()
        if not ln or ln[0] == "#":
            continue
        t = ln.split(" ")
        t = [x for x in t if x != ""]
        if t[0] == "[function]":
            recs.append(("function", t[1], t[2]))
        elif t[0] == "[ioblock]":
            recs.append(("ioblock", t[1], t[2], t[3:]))
        elif t[0] == "[glue]":
            recs.append(("glue", t[1], t[2], t[3], t[4]))
        elif t[0] == "[external]":
            recs.append(("external",) + tuple(t[1:]))
        elif t[0] == "*" and t[1] == "=" and t[-1] != ".":
            recs.append(("lin", parse_lc(t[2:])))
        else:
            i, j = t.index("*"), t.index("=")
            if t[-1] != ".":
                raise ValueError("equation does not end with '.': %s" % ln)
            recs.append(("mul", parse_lc(t[:i]), parse_lc(t[i + 1:j]), parse_lc(t[j + 1:-1])))
    return recs


def ctx_of(wire):
    return wire.partition("/")[0]


def strip_ctx(lc):
    return tuple((c, w.partition("/")[2] if "/" in w else w) for c, w in lc)


def run_qap(k, prog):
    be = fresh_backend(k)
    P = be.get_modulus()
    opt = be.options
    obs = []
    # observation point (no source edit): what each I/O block was asked to list, and what it lists
    declared = []
    orig_declare = be.vc_declare_block

    def recording_declare(bn, vcs, rnd1=None):
        vcs = list(vcs)
        ctx = be.vc_ctx
        out = orig_declare(bn, vcs, rnd1)
        declared.append((ctx, bn, [list(x.lc.sig) for x in vcs], [list(y.lc.sig) for y in out]))
        return out
    be.vc_declare_block = recording_declare
    try:
        prog(k, be)
    finally:
        be.vc_declare_block = orig_declare
    reported = None
    try:
        be.prove()               # runs qapsplit, then the (failing) tools
    except ValueError as ex:
        reported = str(ex)       # "Inconsistent functions": two calls of one function name with different equations
    if getattr(prog, "expect_inconsistent", False):
        return [("two calls of the same function name with different equations are reported (or would need distinct files)",
                 reported is not None and "nconsistent" in reported)]
    obs.append(("prove() does not raise for a consistent program (%s)" % reported, reported is None))
    for f in (be.qape, be.qapv, be.qapvo):
        f.flush()
    wires = read_wires(opt.get_wire_file(), k.env)
    ios = read_wires(opt.get_io_file(), k.env)
    for path, what in ((opt.get_wire_file(), "wire"), (opt.get_io_file(), "i/o")):
        nms = [ln.partition(":")[0].strip() for ln in open(path) if ln.strip() and ln.strip()[0] != "#"] if os.path.exists(path) else []
        obs.append(("every %s name is given a value once (%d names)" % (what, len(nms)), len(nms) == len(set(nms))))
    if getattr(prog, "expected_pubs", None) is not None:
        obs.append(("the i/o file has one entry per public value (%d)" % prog.expected_pubs, len(ios) == prog.expected_pubs))
    recs = parse_eqs(opt.get_eqs_file())

    def val(w):
        if w in wires:
            return wires[w]
        if w in ios:
            return ios[w]
        if w.endswith("/one"):
            return 1
        raise KeyError(w)

    def ev(lc):
        s = 0
        for c, w in lc:
            s = s + c * val(w)
        return s
    neq = 0
    try:
        for r in recs:
            if r[0] == "mul":
                neq += 1
                obs.append(("equation %d holds on the wire/io values" % neq, ("cong", ev(r[1]) * ev(r[2]), ev(r[3]))))
            elif r[0] == "lin":
                neq += 1
                obs.append(("linear equation %d holds on the wire/io values" % neq, ("cong", ev(r[1]), 0)))
    except KeyError as ex:
        obs.append(("every wire named in an equation has a value (%s missing)" % ex, False))
    # public values: each i/o entry is tied to a wire by an equality and carries the same value
    for o, v in ios.items():
        tied = [r for r in recs if r[0] == "lin" and len(r[1]) == 2 and {c for c, _ in r[1]} == {1, P - 1, -1} - ({P - 1} if any(c == -1 for c, _ in r[1]) else {-1})
                and any(w == o for _, w in r[1])]
        ok = False
        for r in tied:
            other = [w for _, w in r[1] if w != o]
            if other and other[0] in wires:
                obs.append(("i/o value %s equals the wire %s it is tied to" % (o, other[0]), ("eq", v, wires[other[0]])))
                ok = True
        obs.append(("i/o value %s is tied to a wire by an equality" % o, ok))
    # split files
    fns = {r[2]: r[1] for r in recs if r[0] == "function"}          # call -> function name
    percall = {c: [] for c in fns}
    for r in recs:
        if r[0] == "mul":
            cs = {ctx_of(w) for part in r[1:] for _, w in part}
            obs.append(("an equation mentions wires of one call only", len(cs) <= 1))
            for c in cs:
                percall.setdefault(c, []).append(" ".join(" ".join("%d %s" % t for t in strip_ctx(p)) for p in r[1:]))
        elif r[0] == "lin":
            cs = {ctx_of(w) for _, w in r[1]}
            obs.append(("a linear equation mentions wires of one call only", len(cs) <= 1))
    split = {}
    for fname in set(fns.values()):
        p = opt.get_eqs_file_fn(fname)
        obs.append(("per-function equation file for %s exists after prove()" % fname, os.path.exists(p)))
        if os.path.exists(p):
            split[fname] = [x for x in parse_eqs(p)]
    want = {}
    for r in recs:
        if r[0] in ("mul", "lin"):
            first = (r[1] if r[0] == "lin" else r[1] + r[2] + r[3])
            c = ctx_of(first[0][1]) if first else None
            if c in fns:
                key = ("lin", strip_ctx(r[1])) if r[0] == "lin" else ("mul", strip_ctx(r[1]), strip_ctx(r[2]), strip_ctx(r[3]))
                want.setdefault(c, []).append(key)
    for call, fname in fns.items():
        got = sorted(repr((x[0],) + tuple(strip_ctx(p)for p in x[1:])) for x in split.get(fname, []) if x[0] in ("mul", "lin"))
        exp = sorted(repr(x) for x in want.get(call, []))
        obs.append(("eqs_%s holds every traced equation of call %s (%d traced)" % (fname, call, len(exp)), got == exp))
    # glue: every sub-circuit call is tied to its caller by paired blocks with pairwise equal values
    blocks = {(r[1], r[2]): r[3] for r in recs if r[0] == "ioblock"}
    nglue = 0
    for r in recs:
        if r[0] == "glue":
            nglue += 1
            a, b = blocks.get((r[1], r[2])), blocks.get((r[3], r[4]))
            obs.append(("glue %d refers to two declared blocks of equal length" % nglue, a is not None and b is not None and len(a) == len(b)))
            if a and b and len(a) == len(b):
                for wa, wb in zip(a, b):
                    if wa in wires and wb in wires:
                        obs.append(("glue %d pairs equal values (%s, %s)" % (nglue, wa, wb), ("eq", wires[wa], wires[wb])))
                    else:
                        obs.append(("glue %d: wires %s/%s have values" % (nglue, wa, wb), False))
    # every block entry is the wire of the value it stands for, or a fresh wire tied to that value by a linear equation
    lins = []
    for r in recs:
        terms = r[1] if r[0] == "lin" else (r[3] if (r[0] == "mul" and (not r[1] or not r[2])) else None)   # 0 * 0 = C is linear too
        if terms is not None:
            d = {}
            for c, w in terms:
                d[w] = (d.get(w, 0) + c) % P
            lins.append({w: c for w, c in d.items() if c})
    for ctx, bn, ins_, outs in declared:
        for i, (a, b) in enumerate(zip(ins_, outs)):
            single = len(b) == 1 and b[0][0] == 1
            same = single and a == b
            tied = False
            if single and not same:
                want = {}
                for c, w in a:
                    want[w] = (want.get(w, 0) + c) % P
                want[b[0][1]] = (want.get(b[0][1], 0) - 1) % P
                want = {w: c for w, c in want.items() if c}
                neg = {w: (-c) % P for w, c in want.items()}
                tied = any(l == want or l == neg for l in lins)
            obs.append(("block %s/%s entry %d is the value's own wire or a wire tied to it by an equation" % (ctx, bn, i), same or tied))
    exp_glue = getattr(prog, "expected_glue", None)
    if exp_glue is not None:
        sizes = sorted(len(blocks.get((r[1], r[2]), [])) for r in recs if r[0] == "glue")
        obs.append(("one glue per sub-circuit call listing all arguments and results (%s)" % (sorted(exp_glue),), sizes == sorted(exp_glue)))
    return obs


# ------------------------------------------------------------------ programs
def p_main(k, be):
    x = k.S("x"); y = k.S("y")
    z = x * y + 3
    z.val()
    (z * x).val()
p_main.expected_glue = []


def _cube(be):
    @be.subqap("cube")
    def cube(a):
        return a * a * a
    return cube


def p_call1(k, be):
    cube = _cube(be)
    x = k.S("x")
    (cube(x) + 1).val()
p_call1.expected_glue = [2]


def p_call2(k, be):
    cube = _cube(be)
    x = k.S("x"); y = k.S("y")
    (cube(x) + cube(y)).val()
p_call2.expected_glue = [2, 2]


def p_call3_list(k, be):
    @be.subqap("sumsq")
    def sumsq(vs, c):
        return [vs[0] * vs[0] + c, vs[1] * vs[1]]
    x = k.S("x"); y = k.S("y")
    r = sumsq([x, y], x)
    r2 = sumsq([r[0], r[1]], y)
    r3 = sumsq([r2[1], x], r2[0])
    (r3[0] + r3[1]).val()
p_call3_list.expected_glue = [5, 5, 5]


def p_nested(k, be):
    @be.subqap("sq")
    def sq(a):
        return a * a

    @be.subqap("quad")
    def quad(a):
        return sq(sq(a)) + a
    x = k.S("x")
    quad(x).val()
p_nested.expected_glue = [2, 2, 2]


def p_inconsistent(k, be):
    def mk(c):
        @be.subqap("scale")
        def scale(a):
            return (a * c) * a          # the constant ends up as a coefficient inside the function's equation
        return scale
    x = k.S("x")
    (mk(3)(x) + mk(5)(x)).val()        # same name, same number of equations, different coefficient
p_inconsistent.expect_inconsistent = True


def p_scaled_result(k, be):
    @be.subqap("tri")
    def tri(a):
        return a * a * 3                 # single wire with coefficient 3
    x = k.S("x")
    (tri(x * 2) + 1).val()               # argument: single wire with coefficient 2
p_scaled_result.expected_glue = [2]


def p_inconsistent_even(k, be):
    def mk(reps):
        @be.subqap("chk")
        def chk(a):
            s = a * a
            t = s + 0
            for _ in range(reps):
                t.assert_eq(s)          # the very same equation line, an even number of times
            return s
        return chk
    x = k.S("x")
    (mk(0)(x) + mk(2)(x)).val()
p_inconsistent_even.expect_inconsistent = True


def p_inconsistent_extra(k, be):
    def mk(extra):
        @be.subqap("chk2")
        def chk2(a):
            s = a * a
            if extra:
                (s * a).assert_eq(a * a * a)
            return s
        return chk2
    x = k.S("x")
    (mk(False)(x) + mk(True)(x)).val()
p_inconsistent_extra.expect_inconsistent = True


def p_pub_around_call(k, be):
    cube = _cube(be)
    x = k.S("x")
    a = k.Pub("y")                       # published before the call
    (x + a).val()
    c = cube(x)                          # the sub-circuit publishes nothing
    (c + 1).val()                        # published after the call, twice
    d = cube(c)
    (d * a).val()
p_pub_around_call.expected_glue = [2, 2]
p_pub_around_call.expected_pubs = 4


def p_pub_inside_call(k, be):
    @be.subqap("leak")
    def leak(a):
        (a * a).val()                    # the sub-circuit itself publishes
        return a + 1
    x = k.S("x")
    (x * 2).val()
    (x * 3).val()
    r = leak(x)
    (r * x).val()
    leak(r).val()
p_pub_inside_call.expected_glue = [2, 2]
p_pub_inside_call.expected_pubs = 6


def p_similar_names(k, be):
    """two different functions whose names differ only in punctuation / case: each keeps its own equation file"""
    @be.subqap("step.2")
    def f1(a):
        return a * a + 1

    @be.subqap("step_2")
    def f2(a):
        return (a * a) * a

    @be.subqap("Step_2")
    def f3(a):
        return a * 5 * a
    x = k.S("x")
    (f1(x) + f2(x) + f3(x) + f1(x + 1)).val()
p_similar_names.expected_glue = [2, 2, 2, 2]


def p_repeated_wire(k, be):
    """the same wire in two block positions (f(w, w)), a function returning an argument unchanged and a value twice"""
    @be.subqap("mix")
    def mix(a, b):
        return [a * b + 1, a, a * b + 1]

    @be.subqap("dup")
    def dup(a):
        s = a * a
        return (s, s)
    x = k.S("x")
    r = mix(x, x)
    d = dup(r[1])
    (r[0] + r[2] + d[0] * d[1]).val()
p_repeated_wire.expected_glue = [3, 5]


def p_zero_coeff_arg(k, be):
    """arguments / results whose linear combination carries a zero-coefficient term (a public weight 0) in front"""
    @be.subqap("madd")
    def madd(a, b):
        return a * b + a * 0 + b           # result: product wire, a zero term, an input wire
    x = k.S("x"); y = k.S("y")
    r = madd(x * 0 + y, 0 * y + x * 1)     # each argument has exactly one non-zero term, preceded by a zero one
    (r + 1).val()
p_zero_coeff_arg.expected_glue = [3]


PROGRAMS = dict(zero_coeff_arg=(p_zero_coeff_arg, ("x", "y")), repeated_wire=(p_repeated_wire, ("x",)), similar_names=(p_similar_names, ("x",)), inconsistent_even=(p_inconsistent_even, ("x",)), inconsistent_extra=(p_inconsistent_extra, ("x",)),
                pub_around_call=(p_pub_around_call, ("x", "y")), pub_inside_call=(p_pub_inside_call, ("x",)),
                scaled=(p_scaled_result, ("x",)), inconsistent=(p_inconsistent, ("x",)), main=(p_main, ("x", "y")), call1=(p_call1, ("x",)), call2=(p_call2, ("x", "y")),
                call3_list=(p_call3_list, ("x", "y")), nested=(p_nested, ("x",)))


def build(n=4, tier="quick"):
    return [Entry("qap_" + nm, (lambda k, prog=prog: run_qap(k, prog)), ins, tags={"c12"}) for nm, (prog, ins) in PROGRAMS.items()]


def by_name(n=4, tier="thorough"):
    return {e.name: e for e in build(n, tier)}
