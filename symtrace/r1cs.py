"""Captured R1CS -> SMT over the integers, field-aware (DESIGN 3, route A).

Operand wires keep their honest (symbolic) values; every other wire is a fresh integer in [0,P) chosen by the
adversarial prover.  Congruences are written exactly; where interval arithmetic shows |L| < P the congruence
L = 0 (mod P) is replaced by the equivalent L = 0, which keeps most gadget encodings linear.
"""
import z3

from .engine import T


class Sys:
    def __init__(self, P, npub, npriv, cons, fixed, tag="w", bounds=None):
        """fixed: {('pub'|'priv', idx): z3 term}  -- wires that keep their honest value
        bounds: {('pub'|'priv', idx): (lo, hi)} numeric bounds known for fixed wires (optional)"""
        self.P = P
        self.cons = cons
        self.fixed = dict(fixed)
        self.w = {}
        self.bound = {}
        self.bools = set()
        self.side = []            # range constraints of free wires
        for kind, n in (("pub", npub), ("priv", npriv)):
            for i in range(n):
                key = (kind, i)
                if key in self.fixed:
                    self.w[key] = self.fixed[key]
                    if bounds and key in bounds:
                        self.bound[key] = bounds[key]
                else:
                    v = z3.Int("%s_%s%d" % (tag, kind[1], i))   # e.g. w_r3 = free private wire 3
                    self.w[key] = v
                    self.bound[key] = (0, P - 1)
        self._detect_booleans()
        for key, v in self.w.items():
            if key in self.fixed:
                continue
            lo, hi = self.bound[key]
            self.side.append(z3.And(v >= lo, v <= hi))

    # ------------------------------------------------------------------ helpers on recorder lcs
    @staticmethod
    def key_of(k):
        return None if k == 0 else (("pub", k - 1) if k > 0 else ("priv", -k - 1))

    def norm(self, lc):
        """{wirekey or None: symmetric coefficient}, zero coefficients dropped"""
        out = {}
        P = self.P
        for k, c in lc.items():
            if type(c) is not int:
                raise ValueError("symbolic coefficient")
            c %= P
            if c == 0:
                continue
            if c > P // 2:
                c -= P
            out[self.key_of(k)] = c
        return out

    def term(self, nlc):
        """z3 term of a normalised lc.  Boolean wires whose coefficients are (odd * 2^j) for a common odd part are emitted
        in Horner form b0 + 2*(b1 + 2*(...)): the same value, but it decides how far the solver gets on bit sums
        (probe in DESIGN 3: flat form unknown at 16 bits, Horner 0.02 s)"""
        groups, rest = {}, []
        for k, c in nlc.items():
            if k is not None and k in self.bools and c != 0:
                j = (c & -c).bit_length() - 1 if c > 0 else ((-c) & c).bit_length() - 1
                j = (abs(c) & -abs(c)).bit_length() - 1
                odd = c >> j
                if j in groups.setdefault(odd, {}):
                    rest.append((k, c))          # two wires with the same coefficient: only one can sit in the chain
                else:
                    groups[odd][j] = k
            else:
                rest.append((k, c))
        s = None
        for odd, js in groups.items():
            if len(js) < 4:
                rest.extend((k, odd << j) for j, k in js.items())
                continue
            top, low = max(js), min(js)
            acc = None
            for j in range(top, low - 1, -1):
                b = self.w[js[j]] if j in js else None
                if acc is None:
                    acc = b
                else:
                    acc = (b + 2 * acc) if b is not None else 2 * acc
            t = acc if (odd << low) == 1 else (odd << low) * acc
            s = t if s is None else s + t
        for k, c in rest:
            w = z3.IntVal(1) if k is None else self.w[k]
            t = w if c == 1 else c * w
            s = t if s is None else s + t
        return z3.IntVal(0) if s is None else s

    def interval(self, nlc):
        lo = hi = 0
        for k, c in nlc.items():
            if k is None:
                lo += c
                hi += c
                continue
            b = self.bound.get(k)
            if b is None:
                return None
            a, d = (c * b[0], c * b[1])
            lo += min(a, d)
            hi += max(a, d)
        return lo, hi

    def cong0(self, nlc, extra=None):
        """z3 formula for  (nlc [+ extra term]) = 0 (mod P)"""
        t = self.term(nlc)
        iv = self.interval(nlc) if extra is None else None
        if extra is not None:
            t = t + extra
        if iv is not None:
            lo, hi = iv
            P = self.P
            kmin, kmax = -((-lo) // P), hi // P          # multiples k*P inside [lo, hi]
            if kmax < kmin:
                return z3.BoolVal(False)
            if kmax - kmin <= 2:
                ks = list(range(kmin, kmax + 1))
                return z3.Or([t == k * P for k in ks]) if len(ks) > 1 else (t == ks[0] * P)
        return t % self.P == 0

    # ------------------------------------------------------------------ boolean detection
    def _is_one_minus(self, a, b):
        """b == 1 - a or b == a - 1 (as normalised lcs)"""
        if set(a) | {None} != set(b) | {None} and set(b) - {None} != set(a) - {None}:
            return False
        for sign in (1, -1):
            cand = {k: -sign * c for k, c in a.items()}
            cand[None] = cand.get(None, 0) + sign
            cand = {k: c for k, c in cand.items() if c}
            if cand == b:
                return True
        return False

    def _detect_booleans(self):
        for A, B, C in self.cons:
            try:
                a, b, c = self.norm(A), self.norm(B), self.norm(C)
            except ValueError:
                continue
            if c:
                continue
            for x, y in ((a, b), (b, a)):
                if len(x) == 1 and None not in x and list(x.values())[0] == 1 and self._is_one_minus(x, y):
                    key = list(x)[0]
                    self.bools.add(key)
                    if key not in self.fixed:
                        self.bound[key] = (0, 1)

    # ------------------------------------------------------------------ determinacy propagation (route B, syntactic part)
    def propagate(self, honest, facts, solve):
        """Fix wires that the constraints determine uniquely from already-fixed wires to their honest hints.
        R1: a constraint whose only free wire occurs only in C (non-zero coefficient) determines it.
        R2: a constraint whose only free wire occurs only in one factor, the other factor being fully fixed and provably
            non-zero mod P under `facts`, determines it.
        Justification: the honest assignment satisfies the constraints (C01), so a uniquely determined wire equals its
        honest hint.  returns number of wires fixed."""
        n = 0
        changed = True
        while changed:
            changed = False
            for A, B, C in self.cons:
                try:
                    a, b, c = self.norm(A), self.norm(B), self.norm(C)
                except ValueError:
                    continue
                fa = [k for k in a if k is not None and k not in self.fixed]
                fb = [k for k in b if k is not None and k not in self.fixed]
                fc = [k for k in c if k is not None and k not in self.fixed]
                target = None
                if not fa and not fb and len(fc) == 1:
                    target = fc[0]
                elif len(fa) + len(fb) == 1 and not fc:
                    v = (fa or fb)[0]
                    other = b if fa else a
                    mine = a if fa else b
                    if v not in other:
                        st, _ = solve(facts, self.term(other) % self.P == 0)
                        if st == "unsat":
                            target = v
                if target is not None and target in honest:
                    self.fixed[target] = honest[target]
                    self.w[target] = honest[target]
                    self.bound.pop(target, None)
                    n += 1
                    changed = True
        self.side = []
        for key, v in self.w.items():
            if key in self.fixed:
                continue
            lo, hi = self.bound[key]
            self.side.append(z3.And(v >= lo, v <= hi))
        return n

    def propagate_semantic(self, honest, facts_list, solve, window=6, order=None):
        """route B (DESIGN 3): in allocation order, ask the solver whether the earliest free wire v is forced to its honest
        value by the constraints whose free wires lie in a small window starting at v; if so fix it and let the syntactic
        rules run again.  Wires that are legitimately free (inverse hints of zero tests) simply stay free.
        facts_list: fact sets to try in turn (e.g. linear facts, then all facts).  returns number of wires fixed."""
        fixed_n = 0
        keyorder = order or sorted(self.w, key=lambda k: (k[0] != "pub", k[1]))
        progress = True
        while progress:
            progress = False
            free = [k for k in keyorder if k not in self.fixed]
            for idx, v in enumerate(free):
                if v not in honest:
                    continue
                decided = False
                for wsize in sorted({2, window, 2 * window}):
                    W = set(free[idx:idx + wsize])
                    sl = []
                    touches = False
                    for i, (A, B, C) in enumerate(self.cons):
                        ks = {self.key_of(k) for part in (A, B, C) for k in part} - {None}
                        fr = {k for k in ks if k not in self.fixed}
                        if fr and fr <= W:
                            sl.append(i)
                            touches = touches or v in fr
                    if not touches:
                        continue
                    enc = self.encode(only=set(sl))
                    goal = (self.w[v] - honest[v]) % self.P != 0
                    for facts in facts_list:
                        st, _ = solve(facts + enc, goal)
                        if st == "unsat":
                            decided = True
                            break
                    if decided:
                        break
                if decided:
                    self.fixed[v] = honest[v]
                    self.w[v] = honest[v]
                    self.bound.pop(v, None)
                    fixed_n += 1 + self.propagate(honest, facts_list[-1], solve)
                    progress = True
                    break
        self.side = []
        for key, var in self.w.items():
            if key in self.fixed:
                continue
            lo, hi = self.bound[key]
            self.side.append(z3.And(var >= lo, var <= hi))
        return fixed_n

    def is_boolwire(self, key):
        return key in self.bools

    # ------------------------------------------------------------------ encoding
    def encode_constraint(self, A, B, C):
        a, b, c = self.norm(A), self.norm(B), self.norm(C)
        P = self.P
        # constant sides
        for x, y in ((a, b), (b, a)):
            if all(k is None for k in x):
                cst = x.get(None, 0)
                lin = {k: (v * cst) for k, v in y.items()}
                for k, v in c.items():
                    lin[k] = lin.get(k, 0) - v
                lin = {k: self._sym(v) for k, v in lin.items() if v % P}
                return self.cong0(lin)
        if not c:
            return z3.Or(self.cong0(a), self.cong0(b))
        # a side made of boolean wires only: distribute
        for x, y in ((a, b), (b, a)):
            ws = [k for k in x if k is not None]
            if ws and all(self.is_boolwire(k) for k in ws):
                yt = self.term(y)
                acc = None
                for k, cf in x.items():
                    piece = yt if k is None else z3.If(self.w[k] == 1, yt, z3.IntVal(0))
                    piece = piece if cf == 1 else cf * piece
                    acc = piece if acc is None else acc + piece
                return (acc - self.term(c)) % P == 0
        at, bt, ct = self.term(a), self.term(b), self.term(c)
        return z3.And((at * bt - ct) % P == 0,
                      z3.Or(self.cong0(a), self.cong0(b)) == self.cong0(c))

    def _sym(self, v):
        v %= self.P
        return v - self.P if v > self.P // 2 else v

    def encode(self, only=None, skip_fixed=True):
        """constraints whose wires are all fixed to honest values are implied by C01 (the honest witness satisfies the
        system) and are left out: dropping constraints only enlarges the solution set, so unsat answers stay sound"""
        out = list(self.side)
        self.skipped_fixed = 0
        for i, (A, B, C) in enumerate(self.cons):
            if only is not None and i not in only:
                continue
            if skip_fixed and all(self.key_of(k) is None or self.key_of(k) in self.fixed for part in (A, B, C) for k in part):
                self.skipped_fixed += 1
                continue
            out.append(self.encode_constraint(A, B, C))
        return out

    def bit_groups(self, min_len=6):
        """groups of free boolean wires that occur in one linear combination with coefficients s*2^j, j = 0..k-1"""
        out = []
        seen = set()
        for A, B, C in self.cons:
            for part in (A, B, C):
                try:
                    nl = self.norm(part)
                except ValueError:
                    continue
                for sign in (1, -1):
                    js = {}
                    for k, c in nl.items():
                        if k is not None and k in self.bools and k not in self.fixed and sign * c > 0 and (sign * c) & (sign * c - 1) == 0:
                            js.setdefault((sign * c).bit_length() - 1, k)
                    kmax = 0
                    while kmax in js:
                        kmax += 1
                    if kmax >= min_len:
                        key = tuple(js[j] for j in range(kmax))
                        if key not in seen:
                            seen.add(key)
                            out.append([self.w[x] for x in key])
        return out

    def uniqueness_lemmas(self, path, min_len=6):
        """valid arithmetic facts, stated because the solvers do not discover them at 16 bits: two 0/1 sequences with the
        same weighted sum sum 2^j u_j are equal.  Instantiated for every (free bit group, honest skolem decomposition) pair
        and for pairs of free groups."""
        groups = self.bit_groups(min_len)
        lem = []
        honest = [bs for (_tid, _W), (bs, hi, t) in path.bitcache.items()]
        for g in groups:
            k = len(g)
            su = sum((1 << j) * g[j] for j in range(k))
            for bs in honest:
                if len(bs) >= k:
                    sv = sum((1 << j) * bs[j] for j in range(k))
                    lem.append(z3.Implies(su == sv, z3.And([g[j] == bs[j] for j in range(k)])))
        return lem

    def lc_term(self, lc):
        return self.term(self.norm(lc))

    def free_wires(self):
        return [k for k in self.w if k not in self.fixed]

    # ------------------------------------------------------------------ exact validation of a model
    def check_model(self, values):
        """values: {wirekey: int}; exact evaluation of every constraint"""
        P = self.P

        def evl(lc):
            s = 0
            for k, c in lc.items():
                key = self.key_of(k)
                s += c * (1 if key is None else values[key])
            return s % P
        # constraints whose wires are all fixed hold by C01 on the honest values; the model may carry placeholder values
        # for fixed wires whose hints the engine leaves open (field inverses), so they are not judged here -- the replay
        # substitutes only the FREE wires into the real run and re-evaluates everything
        return [i for i, (A, B, C) in enumerate(self.cons)
                if any(self.key_of(k) is not None and self.key_of(k) not in self.fixed for part in (A, B, C) for k in part)
                and (evl(A) * evl(B) - evl(C)) % P != 0]
