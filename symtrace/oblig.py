"""Proof obligations over explored paths (engine side)."""
import builtins
import z3

from . import engine as E
from . import harness as H
from .engine import T, SymInt, SymBool
from .poly import Normaliser
from .concrete import flat, lincomb_of, run_concrete


def path_equalities(path):
    """var == constant facts decided on the path (guards, selected indices): usable as substitutions"""
    out = {}
    for c in path.assume + path.pc:
        c = z3.simplify(c)
        todo = [c]
        while todo:
            x = todo.pop()
            if z3.is_and(x):
                todo.extend(x.children())
            elif z3.is_eq(x):
                a, b = x.children()
                for u, v in ((a, b), (b, a)):
                    if z3.is_int_value(v) and z3.is_const(u) and u.decl().kind() == z3.Z3_OP_UNINTERPRETED:
                        out[u.get_id()] = v.as_long()
    return out


def bit_lemmas(path, widths):
    """true statements about the exact skolem decompositions of a path (t = sum 2^i b_i + 2^W hi): if 0 <= t < 2^k then the
    digits above k and the high part are zero.  Implied by the axioms; stated explicitly because the solvers do not find
    uniqueness of binary expansions across different widths by themselves at 16 bits"""
    out = []
    for (tid, W), (bs, hi, t) in path.bitcache.items():
        for k in widths:
            if k < W:
                out.append(z3.Implies(z3.And(t >= 0, t < (1 << k)), z3.And([hi == 0] + [b == 0 for b in bs[k:]])))
    return out


def normaliser(env, trace):
    nz = trace.extra.get("nz")
    if nz is None:
        nz = Normaliser(env.P, trace.path.prod_defs, trace.path.red_defs, subst=path_equalities(trace.path))
        trace.extra["nz"] = nz
    return nz


def constraint_term(c, pubt, privt):
    A, B, C = c
    return H.ev(A, pubt, privt) * H.ev(B, pubt, privt) - H.ev(C, pubt, privt)


def _wire(k, pubt, privt):
    return z3.IntVal(1) if k == 0 else (pubt[k - 1] if k > 0 else privt[-k - 1])


def constraint_term_solver(c, pubt, privt, nz=None):
    """same value as constraint_term, but a side whose wires are all 0/1 terms is distributed as If(w = 1, other, 0),
    which keeps the query linear for the solver"""
    A, B, C = c
    ENG = E.ENG
    if nz is not None:
        m = nz.product_var(H.ev(A, pubt, privt), H.ev(B, pubt, privt))
        if m is not None:
            return m - H.ev(C, pubt, privt)
    for X, Y in ((A, B), (B, A)):
        ws = [(k, cf) for k, cf in X.items() if k != 0]
        if ws and all(type(cf) is int and ENG.is_bool(_wire(k, pubt, privt)) for k, cf in ws):
            other = H.ev(Y, pubt, privt)
            acc = None
            for k, cf in X.items():
                piece = other if k == 0 else z3.If(_wire(k, pubt, privt) == 1, other, z3.IntVal(0))
                piece = piece * T(cf) if not (type(cf) is int and cf == 1) else piece
                acc = piece if acc is None else acc + piece
            return acc - H.ev(C, pubt, privt)
    if nz is not None:
        m = nz.product_var(H.ev(A, pubt, privt), H.ev(B, pubt, privt))
        if m is not None:
            return m - H.ev(C, pubt, privt)
    return constraint_term(c, pubt, privt)


def c01_obligations(env, trace, timeout_ms=20000, label=""):
    """for one completed path: every recorded constraint holds mod P on the recorded hints.
    returns list of dict(idx, status in {'syntactic','unsat','sat','unknown'}, model)"""
    pubt, privt = H.wire_terms(trace)
    nz = normaliser(env, trace)
    facts = trace.path.facts()
    out = []
    pending = []
    E.ENG.bools = trace.path.bools
    for i, c in enumerate(trace.cons):
        term = constraint_term(c, pubt, privt)
        if nz.is_zero(term):
            H.STATS.syntactic += 1
            out.append(dict(idx=i, status="syntactic", model=None))
        else:
            pending.append((i, constraint_term_solver(c, pubt, privt, nz)))
    # one combined query first (cheap when everything holds), split only if it does not come back unsat
    if pending:
        goal = z3.Or([t % env.P != 0 for _, t in pending])
        st, m = H.solve(facts, goal, timeout_ms, label="C01 %s all-constraints" % label)
        if st == "unsat":
            for i, _ in pending:
                out.append(dict(idx=i, status="unsat", model=None))
        else:
            for i, t in pending:
                st, m = H.solve(facts, t % env.P != 0, timeout_ms, label="C01 %s constraint %d" % (label, i))
                out.append(dict(idx=i, status=st, model=m if st == "sat" else None, reason=m if st == "unknown" else None))
    return out


def result_objects(trace):
    """secret-typed leaves of what the API returned: list of (index, LinComb)"""
    res = []
    for i, o in enumerate(flat(trace.result)):
        lc = lincomb_of(o)
        if lc is not None:
            res.append((i, lc))
    return res


def c04_obligations(env, trace, timeout_ms=20000, label=""):
    pubt, privt = H.wire_terms(trace)
    nz = normaliser(env, trace)
    facts = trace.path.facts()
    out = []
    for i, lc in result_objects(trace):
        term = T(lc.value) - H.ev(lc.lc.lc, pubt, privt)
        if nz.is_zero(term):
            H.STATS.syntactic += 1
            out.append(dict(idx=i, status="syntactic", model=None))
            continue
        st, m = H.solve(facts, term % env.P != 0, timeout_ms, label="C04 %s result %d" % (label, i))
        out.append(dict(idx=i, status=st, model=m if st == "sat" else None, reason=m if st == "unknown" else None,
                        term=term))
    return out


# ------------------------------------------------------------------------------------------ canonical traces (C06)

def canon_lc(lc, P):
    items = []
    for k, c in lc.items():
        if type(c) is not int:
            # symbolic coefficient: value-dependent by construction
            items.append((k, "sym:" + str(z3.simplify(T(c)))))
            continue
        c %= P
        if c:
            items.append((k, c))
    return tuple(sorted(items))


def canon_trace(env, trace, with_result=True):
    P = env.P
    cons = tuple((canon_lc(a, P), canon_lc(b, P), canon_lc(c, P)) for a, b, c in trace.cons)
    res = ()
    if with_result and trace.path.ok:
        r = []
        for o in flat(trace.result):
            lc = lincomb_of(o)
            if lc is not None:
                r.append(("lc", canon_lc(lc.lc.lc, P)))
            elif type(o) in (SymInt, SymBool):
                r.append(("plain-secret-dependent",))
            else:
                r.append(("plain",))
        res = tuple(r)
    return (len(trace.pub), len(trace.priv), cons, res)


# ------------------------------------------------------------------------------------------ translator validation

def _mentions(term, defs):
    seen = set()
    todo = [term]
    while todo:
        t = todo.pop()
        if t.get_id() in seen:
            continue
        seen.add(t.get_id())
        if t.get_id() in defs:
            return True
        todo.extend(t.children())
    return False


def validate_path(env, entry, cfg, trace, vals, compare_result=True):
    """run the harness concretely on a model of the path; the concrete run must reproduce the path's outcome,
    hints, constraints and result values.  returns (ok: bool, message, inputs)"""
    st, m = H.solve(trace.path.facts(), [], 20000)
    if st != "sat":
        return None, "path condition not satisfiable (%s)" % st, None
    inputs = H.model_inputs(m, vals)
    out = run_concrete(env, entry, cfg, inputs)
    if (out["outcome"] == "ok") != trace.path.ok:
        return False, "outcome differs: concrete %s (%r) vs symbolic %s (%r) on %s" % (
            out["outcome"], out["exc"], "ok" if trace.path.ok else "exc", trace.path.exc, inputs), inputs
    if not trace.path.ok:
        if type(out["exc"]) is not type(trace.path.exc):
            return False, "exception type differs: %r vs %r on %s" % (out["exc"], trace.path.exc, inputs), inputs
    # hints
    for kind, sym, con in (("pub", trace.pub, out["pub"]), ("priv", trace.priv, out["priv"])):
        if len(sym) != len(con):
            return False, "%s count differs %d vs %d on %s" % (kind, len(sym), len(con), inputs), inputs
        for i, (a, b) in enumerate(zip(sym, con)):
            av = H.model_eval_int(m, T(a))
            if av != b and _mentions(T(a), trace.path.inv_defs):
                continue            # inverse hints are deliberately left open by the engine (see named_inverse)
            if av != b:
                return False, "%s[%d] differs: symbolic %d vs concrete %d on %s" % (kind, i, av, b, inputs), inputs
    if len(trace.cons) != len(out["cons"]):
        return False, "constraint count differs on %s" % inputs, inputs
    P = env.P
    for i, (cs, cc) in enumerate(zip(trace.cons, out["cons"])):
        for a, b in zip(cs, cc):
            ca = {k: ((v if type(v) is int else H.model_eval_int(m, T(v))) % P) for k, v in a.items()}
            cb = {k: v % P for k, v in b.items()}
            if {k: v for k, v in ca.items() if v} != {k: v for k, v in cb.items() if v}:
                return False, "constraint %d differs on %s" % (i, inputs), inputs
    if trace.path.ok and compare_result:
        rs = [o for o in flat(trace.result)]
        rc = [o for o in flat(out["result"])]
        if len(rs) != len(rc):
            return False, "result shape differs on %s" % inputs, inputs
        for a, b in zip(rs, rc):
            la, lb = lincomb_of(a), lincomb_of(b)
            if (la is None) != (lb is None):
                return False, "result kind differs on %s" % inputs, inputs
            va = la.value if la is not None else a
            vb = lb.value if lb is not None else b
            if type(va) in (SymInt, SymBool, int, bool) and type(vb) in (int, bool):
                if H.model_eval_int(m, T(va)) != int(vb):
                    if _mentions(T(va), trace.path.inv_defs):
                        continue
                    return False, "result value differs: %s vs %s on %s" % (H.model_eval_int(m, T(va)), vb, inputs), inputs
    return True, "", inputs
