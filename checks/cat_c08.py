"""C08 harnesses: bounded histories of entering / leaving / aborting guarded regions (no z3 import here)."""
from .catalogue import Entry


def trees(max_regions, max_depth, kinds=("G", "P")):
    """all region forests: node = (kind, raise_pos, children) ; kind 'G' = runtime.guarded, 'P' = add_guard/restore_guard pair,
    'I' = block-API _if ... _endif, 'J' = block-API _if/_else whose closing _endif raises (else branch forgets a variable)"""
    def forests(budget, depth):
        # list of (forest, used)
        out = [((), 0)]
        if budget == 0 or depth == 0:
            return out
        for first, u1 in nodes(budget, depth):
            for rest, u2 in forests(budget - u1, depth):
                out.append(((first,) + rest, u1 + u2))
        return out

    def nodes(budget, depth):
        out = []
        if budget < 1:
            return out
        for kids, used in forests(budget - 1, depth - 1):
            for kind in kinds:
                rps = ([None] if kind != "K" else []) + (list(range(len(kids) + 1)) if kind in ("G", "K") else [])
                for rp in rps:
                    out.append(((kind, rp, kids), used + 1))
        return out
    res = []
    for f, used in forests(max_regions, max_depth):
        if used >= 1:
            res.append(f)
    return res


def count(forest):
    return sum(1 + count(n[2]) for n in forest)


class Boom(Exception):
    pass


class BoomBase(BaseException):
    """an abort that is not an Exception (KeyboardInterrupt, SystemExit, GeneratorExit are of this kind)"""


def run_history(k, forest, e0, share=False):
    """share: every nested region (depth >= 1) is entered with one and the same condition object, as a helper that is
    called from several enclosing regions does"""
    rt = k.rt
    obs = []
    shared = {}

    def cond_obj(nm):
        if not share:
            return k.S(nm)
        if nm not in shared:
            shared[nm] = k.S(nm)
        return shared[nm]
    rt.ignore_errors(e0)
    counter = [0]

    def triple():
        return (rt.guard, rt._ignore_errors, rt.LinComb.ONE)

    def same(a, b):
        return (a[0] is b[0]) and (bool(a[1]) == bool(b[1])) and (a[2] is b[2])

    def isbit(v):
        return bool((v == 0) | (v == 1))

    def region(node, conds):
        kind, rp, kids = node
        ci = counter[0]
        counter[0] += 1
        nm = "c%d" % ci
        if share and conds:
            nm = shared.setdefault("__name__", nm)      # the first nested region's condition serves all nested regions
        c = k.vals[nm]
        before = triple()

        def body():
            allc = conds + [c]
            if all(isbit(v) for v in allc):
                prod = 1
                for v in allc:
                    prod = prod * v
                obs.append(("region %d: guard value is the conjunction" % ci, ("eq", rt.guard.value, prod)))
                anyzero = any(bool(v == 0) for v in allc)
                obs.append(("region %d: error suppression = initial or some condition false" % ci,
                            bool(rt._ignore_errors) == (bool(e0) or anyzero)))
            obs.append(("region %d: constants are multiples of the active guard" % ci, rt.LinComb.ONE is rt.guard))
            rt.LinComb._ensurelc(7)          # an integer constant converted inside the region (must not be remembered with this meaning)
            boom = BoomBase if kind == "K" else Boom
            for i, kid in enumerate(kids):
                if rp == i:
                    raise boom()
                region(kid, allc)
            if rp == len(kids):
                raise boom()

        entered = True
        try:
            if kind in ("G", "K"):
                rt.guarded(cond_obj(nm))(body)()
            elif kind == "E":
                # if / elif / else chain: the _elif condition belongs to the state before the _if
                br = k.br
                ctx = br.BranchingValues()
                ctx.v = 0
                try:
                    br._if(cond_obj(nm), ctx=ctx)
                except ValueError:
                    raise RuntimeError("incorrect guard value (not boolean)")
                body()
                ctx.v = 1
                seen = []

                def elif_cond():
                    seen.append(triple())
                    return rt.PrivVal(1)
                br._elif(elif_cond, ctx=ctx)
                obs.append(("region %d: the _elif condition is evaluated in the state before the _if" % ci,
                            len(seen) == 1 and same(before, seen[0])))
                ctx.v = 2
                br._else(ctx=ctx)
                ctx.v = 3
                br._endif(ctx=ctx)
            elif kind in ("I", "J"):
                br = k.br
                ctx = br.BranchingValues()
                ctx.v = 0
                try:
                    br._if(cond_obj(nm), ctx=ctx)
                except ValueError:
                    raise RuntimeError("incorrect guard value (not boolean)")
                body()
                ctx.v = 1
                if kind == "J":
                    ctx.fresh = 5                # defined in the if-branch only ...
                    br._else(ctx=ctx)
                    ctx.v = 2
                    try:
                        br._endif(ctx=ctx)       # ... so closing the block raises
                        obs.append(("region %d: a branch that forgets a variable is reported" % ci, False))
                    except RuntimeError as ex:
                        if "did not set value" not in str(ex):
                            raise
                else:
                    br._endif(ctx=ctx)
            else:
                bak = rt.add_guard(cond_obj(nm))
                try:
                    body()
                finally:
                    pass
                rt.restore_guard(bak)
        except BoomBase:
            if kind != "K":
                raise
        except Boom:
            if kind != "G" and rp is None:
                # a Boom from a nested G region cannot escape (caught there); from a P region it never starts
                raise
        except RuntimeError as ex:
            if "incorrect guard value" not in str(ex):
                raise
            entered = False
        after = triple()
        obs.append(("region %d (%s%s): state after exit equals state before entry" % (
            ci, kind, "" if rp is None else ", aborted at %d" % rp), same(before, after)))

    init = triple()
    for node in forest:
        region(node, [])
    obs.append(("whole history: final state equals initial state", same(init, triple())))
    obs.append(("whole history: an integer constant means itself again (7 times the constant-one wire)",
                dict(rt.LinComb._ensurelc(7).lc.lc) == dict((rt.LinComb.ONE_SAFE * 7).lc.lc)))
    return obs


def _assume(k, nconds):
    return [(k.v("c%d" % i) > -2) & (k.v("c%d" % i) < 3) for i in range(nconds)]


def build(n=4, tier="quick"):
    maxr, maxd = (3, 2) if tier == "quick" else (4, 3)
    ents = []
    forests = list(trees(maxr, maxd))
    seen = set(forests)
    for f in trees(2 if tier == "quick" else 3, 2, kinds=("G", "P", "I", "J", "K", "E")):
        if f not in seen:
            forests.append(f)
            seen.add(f)
    for fi, f in enumerate(forests):
        nc = count(f)
        for e0 in (False, True):
            name = "hist_%s_e%d" % (shape_name(f), int(e0))
            ents.append(Entry(name, (lambda k, f=f, e0=e0: run_history(k, f, e0)), tuple("c%d" % i for i in range(nc)),
                              assume=(lambda k, nc=nc: _assume(k, nc)), tags={"c08"}))
    # one condition object entered as a nested guard from several enclosing regions
    def two(kind_o, kind_i, depth3=False):
        inner = (kind_i, None, ())
        if depth3:
            inner = (kind_i, None, ((kind_i, None, ()),))
        return ((kind_o, None, (inner,)), (kind_o, None, (inner,)))
    sh = [two("G", "G"), two("P", "P"), two("I", "I"), two("G", "P"), two("I", "G"), two("E", "G"), two("G", "E")]
    if tier != "quick":
        sh += [two("G", "G", True), two("P", "G", True), ((("G", None, (("G", None, ()), ("G", None, ()))),)),
               two("G", "G") + (("G", None, (("P", None, ()),)),)]
    for f in sh:
        nc = count(f)
        for e0 in (False, True):
            name = "hist_%s_e%d_shared" % (shape_name(f), int(e0))
            ents.append(Entry(name, (lambda k, f=f, e0=e0: run_history(k, f, e0, share=True)),
                              tuple("c%d" % i for i in range(nc)), assume=(lambda k, nc=nc: _assume(k, nc)), tags={"c08"}))
    names = [e.name for e in ents]
    assert len(names) == len(set(names))
    return ents


def shape_name(forest):
    def nm(node):
        kind, rp, kids = node
        return kind + ("" if rp is None else "x%d" % rp) + ("[" + "".join(nm(x) for x in kids) + "]" if kids else "")
    return "".join(nm(x) for x in forest)


def by_name(n=4, tier="thorough"):
    return {e.name: e for e in build(n, tier)}
