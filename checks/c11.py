"""C11: zkinterface files encode the traced circuit; the verifier file has no witness (three field configurations)."""
from . import cat_c11 as CAT11
from . import common as C
from .obsjob import run_obs_job
from .catjob import lookup

PID = "C11"
BACKENDS = ["zkinterface", "zkifbellman", "zkifbulletproofs"]


def jobs(tier):
    js = []
    for be in BACKENDS:
        for e in CAT11.build(8, tier):
            b = (1 << 64) if "cmp" in e.name else None
            js.append(dict(name="%s/%s" % (e.name, be), entry=e.name, backend=be, cfg=dict(n=8, r=2, guard=None, bound=b),
                           tier=tier, catalogue="checks.cat_c11", pid=PID, weight=1))
    return js


def run_job(env, spec):
    return run_obs_job(PID, env, spec, lookup(spec), "checks.cat_c11")


def main(argv):
    tier = C.tier()
    rep = C.Report(PID)
    rep.functions |= {"pysnark.zkinterface.backend.prove/write_circuit/write_witness/write_constraints/write_varlist/set_modulus",
                      "pysnark.zkinterface.backendbellman, backendbulletproofs (modulus selection)",
                      "generated builder modules Variables/CircuitHeader/Witness/ConstraintSystem/BilinearConstraint/Root"}
    rep.bounds = dict(programs=sorted(CAT11.PROGRAMS), fields=BACKENDS, values="symbolic unbounded integers")
    rep.assumptions = ["flatbuffers is absent: a recording Builder stands in; what pysnark asks the builder to encode is checked, "
                       "the byte-level FlatBuffers layout is the library's job (outside the claim)",
                       "slot numbers are taken from zkinterface.fbs in /repo on every run",
                       "'byte-identical for equal public values' is decided as: every run-time dependent leaf of circuit.zkif is a "
                       "canonical digit of a public value"]
    js = jobs(tier)
    if argv:
        js = [j for j in js if any(a in j["name"] for a in argv)]
    for r in C.run_jobs("c11", js):
        rep.absorb(r)
    return rep.finish("./check C11")
