"""C20 harnesses: Poseidon permutation/sponge and the subset-sum hash against plain-integer references written for
this check; padding; published vectors."""
import hashlib
import struct
from .catalogue import Entry


def load_poseidon(k):
    import importlib
    ph = importlib.import_module("pysnark.poseidon_hash")
    from symtrace import env as ENV
    ENV.track_modules(k.env, [ph])            # first sight = right after import: its containers restart with every run
    if k.env.symbolic and not getattr(ph, "_verif_injected", False):
        from symtrace import engine as E
        E.inject(ph)
        ph._verif_injected = True
    return ph


# ------------------------------------------------------------------ plain-integer reference (mirrors the S-box association)
def ref_pow(x, a, P):
    r = x
    for _ in range(a - 1):
        r = x * r
    return r


def ref_mix(state, M, P):
    return [sum(M[i][j] * state[j] for j in range(len(state))) % P for i in range(len(state))]


def ref_permute(state, C, P):
    R_F, R_P, t, a, rc, M = C["R_F"], C["R_P"], C["t"], C["a"], C["round_constants"], C["matrix"]
    r = 0
    for _ in range(R_F // 2):
        state = [x + c for x, c in zip(state, rc[r])]
        state = [ref_pow(x, a, P) for x in state]
        state = ref_mix(state, M, P)
        r += 1
    for _ in range(R_P):
        state = [x + c for x, c in zip(state, rc[r])]
        state[0] = ref_pow(state[0], a, P)
        state = ref_mix(state, M, P)
        r += 1
    for _ in range(R_F // 2):
        state = [x + c for x, c in zip(state, rc[r])]
        state = [ref_pow(x, a, P) for x in state]
        state = ref_mix(state, M, P)
        r += 1
    return state


def ref_hash(msg, C, P):
    t = C["t"]
    rate = t - 1
    padded = list(msg) + [1]
    while len(padded) % rate:
        padded.append(0)
    state = [0] * t
    for i in range(0, len(padded), rate):
        state = [state[0]] + [s + m for s, m in zip(state[1:], padded[i:i + rate])]
        state = ref_permute(state, C, P)
    return state[1:]


def registered(k):
    from pysnark.poseidon_constants import poseidon_constants
    return poseidon_constants[k.env.backend_name]


def run_permute(k):
    ph = load_poseidon(k)
    P = k.env.P
    C = registered(k)
    rec = k.env.rec
    ins = [k.S("s%d" % i) for i in range(C["t"])]
    counted = hasattr(rec, "constraints")          # the constraint-less "nobackend" has nothing to count
    n0 = len(rec.constraints) if counted else 0
    out = ph.permute(list(ins))
    ncons = (len(rec.constraints) - n0) if counted else (C["R_F"] * C["t"] + C["R_P"]) * (C["a"] - 1)
    ref = ref_permute([k.v("s%d" % i) for i in range(C["t"])], C, P)
    obs = [("parameters in use are the ones registered for the selected backend",
            (ph.R_F, ph.R_P, ph.t, ph.a) == (C["R_F"], C["R_P"], C["t"], C["a"]) and ph.round_constants is C["round_constants"]
            and ph.matrix is C["matrix"]),
           ("permutation emits (R_F*t + R_P) * (a-1) constraints whatever the inputs",
            ncons == (C["R_F"] * C["t"] + C["R_P"]) * (C["a"] - 1))]
    for i, (o, r) in enumerate(zip(out, ref)):
        obs.append(("permutation output %d equals the plain reference" % i, ("cong", o.value, r)))
        obs.append(("permutation output %d is reported reduced" % i, (o.value >= 0) & (o.value < P)))
    return obs


def run_hash(k, L):
    ph = load_poseidon(k)
    P = k.env.P
    C = registered(k)
    out = ph.poseidon_hash([k.S("m%d" % i) for i in range(L)])
    ref = ref_hash([k.v("m%d" % i) for i in range(L)], C, P)
    obs = [("sponge returns rate-many elements", len(out) == C["t"] - 1)]
    for i, (o, r) in enumerate(zip(out, ref)):
        obs.append(("hash output %d equals the plain reference (message length %d)" % (i, L), ("cong", o.value, r)))
    return obs


def run_hash_seq(k):
    """several hashes in one run: each equals the plain sponge of its own message, whatever was hashed before"""
    ph = load_poseidon(k)
    P = k.env.P
    C = registered(k)
    obs = []
    msgs = [[k.S("m0")], [k.S("m1"), k.S("m0")], [k.S("m0")]]
    refs = [[k.v("m0")], [k.v("m1"), k.v("m0")], [k.v("m0")]]
    for ci, (m, r) in enumerate(zip(msgs, refs)):
        out = ph.poseidon_hash(m)
        ref = ref_hash(r, C, P)
        obs.append(("call %d of the run: hash output 0 equals the plain reference" % (ci + 1), ("cong", out[0].value, ref[0])))
        obs.append(("call %d of the run: last hash output equals the plain reference" % (ci + 1), ("cong", out[-1].value, ref[-1])))
    return obs


def perm_outputs(k):
    ph = load_poseidon(k)
    C = registered(k)
    return ph.permute([k.S("s%d" % i) for i in range(C["t"])])


def hash_outputs(k, L):
    ph = load_poseidon(k)
    return ph.poseidon_hash([k.S("m%d" % i) for i in range(L)])


VECTORS = {
    "zkinterface": [0x299c867db6c1fdd79dcefa40e4510b9837e60ebb1ce0663dbaa525df65250465,
                    0x1148aaef609aa338b27dafd89bb98862d8bb2b429aceac47d86206154ffe053d,
                    0x24febb87fed7462e23f6665ff9a0111f4044c38ee1672c1ac6b0637d34f24907,
                    0x0eb08f6d809668a981c186beaf6110060707059576406b248e5d9cf6e78b3d3e,
                    0x07748bc6877c9b82c8b98666ee9d0626ec7f5be4205f79ee8528ef1c4a376fc7],
    "zkifbellman": [0x2a918b9c9f9bd7bb509331c81e297b5707f6fc7393dcee1b13901a0b22202e18,
                    0x65ebf8671739eeb11fb217f2d5c5bf4a0c3f210e3f3cd3b08b5db75675d797f7,
                    0x2cc176fc26bc70737a696a9dfd1b636ce360ee76926d182390cdb7459cf585ce,
                    0x4dc4e29d283afd2a491fe6aef122b9a968e74eff05341f3cc23fda1781dcb566,
                    0x03ff622da276830b9451b88b85e6184fd6ae15c8ab3ee25a5667be8592cce3b1],
}


def run_vector(k):
    ph = load_poseidon(k)
    out = ph.permute([k.rt.PrivVal(i) for i in range(5)])
    want = VECTORS[k.env.backend_name]
    ref = ref_permute(list(range(5)), registered(k), k.env.P)
    return [("published test vector (inputs 0..4) is reproduced", [o.value for o in out] == want),
            ("plain reference reproduces the published vector", ref == want)]


def run_padding(k, L1, L2):
    ph = load_poseidon(k)
    rt = k.rt
    t = ph.t
    saved = ph.permute
    blocks = []

    def fake_permute(sponge):
        blocks[-1].append([x.value for x in sponge[1:]])
        return [rt.LinComb.ZERO] * t
    obs = []
    try:
        ph.permute = fake_permute
        blocks.append([])
        ph.poseidon_hash([k.S("a%d" % i) for i in range(L1)])
        blocks.append([])
        ph.poseidon_hash([k.S("b%d" % i) for i in range(L2)])
    finally:
        ph.permute = saved
    A = [x for b in blocks[0] for x in b]
    B = [x for b in blocks[1] for x in b]
    rate = t - 1
    obs.append(("padded length is a multiple of the rate and longer than the message",
                len(A) % rate == 0 and len(B) % rate == 0 and len(A) > L1 and len(B) > L2))
    if len(A) != len(B):
        obs.append(("messages of lengths %d and %d have different padded forms" % (L1, L2), True))
    else:
        diff = False
        for x, y in zip(A, B):
            diff = (x != y) | diff
        obs.append(("messages of lengths %d and %d have different padded forms" % (L1, L2), diff))
    return obs


def sha_coeff(i, P):
    mask = 2 ** P.bit_length()
    it = 0
    while True:
        val = int(hashlib.sha512(struct.pack("=QQ", i, it)).digest()[::-1].hex(), 16) % mask
        if val < P:
            return val
        it += 1


def run_ggh(k, nbits):
    import importlib
    gh = importlib.import_module("pysnark.ggh_hash")
    from symtrace import env as ENV
    ENV.track_modules(k.env, [gh])
    if k.env.symbolic and not getattr(gh, "_verif_injected", False):
        from symtrace import engine as E
        E.inject(gh)
        gh._verif_injected = True
    P = k.env.P
    bits = [k.B("b%d" % i) for i in range(nbits)]
    out = gh.ggh_hash([b.lc for b in bits])
    ref = 0
    for i in range(nbits):
        ref = ref + k.v("b%d" % i) * sha_coeff(i, P)
    plain = gh.ggh_hash([1 if i % 3 == 0 else 0 for i in range(nbits)])
    plain_ref = sum(sha_coeff(i, P) for i in range(nbits) if i % 3 == 0) % P
    return [("subset-sum hash of secret bits equals sum b_i c_i mod p (coefficients recomputed with hashlib)", ("cong", out.value, ref)),
            ("subset-sum value is reported reduced", (out.value >= 0) & (out.value < P)),
            ("subset-sum prime is the backend's field prime", gh.PRIME == P),
            ("plain subset-sum hash equals the reference", plain == plain_ref)]


def ggh_output(k, nbits):
    import importlib
    gh = importlib.import_module("pysnark.ggh_hash")
    from symtrace import env as ENV
    ENV.track_modules(k.env, [gh])
    if k.env.symbolic and not getattr(gh, "_verif_injected", False):
        from symtrace import engine as E
        E.inject(gh)
        gh._verif_injected = True
    return [gh.ggh_hash([k.B("b%d" % i).lc for i in range(nbits)])]


def build(n=4, tier="quick", backend="zkinterface"):
    ents = []
    t = 5
    ents.append(Entry("perm_ref", run_permute, tuple("s%d" % i for i in range(t)), tags={"c20", "obs"}))
    ents.append(Entry("perm_out", perm_outputs, tuple("s%d" % i for i in range(t)), tags={"c20", "wires"}))
    for L in ([0, 1, 4, 5] if tier == "quick" else [0, 1, 3, 4, 5, 8, 9]):
        ents.append(Entry("hash_ref_L%d" % L, (lambda k, L=L: run_hash(k, L)), tuple("m%d" % i for i in range(L)), tags={"c20", "obs"}))
    ents.append(Entry("hash_seq", run_hash_seq, ("m0", "m1"), tags={"c20", "obs", "seq"}))
    ents.append(Entry("hash_out_L5", (lambda k: hash_outputs(k, 5)), tuple("m%d" % i for i in range(5)), tags={"c20", "wires"}))
    ents.append(Entry("vector", run_vector, (), tags={"c20", "obs", "vector"}))
    maxL = 8 if tier == "quick" else 12
    for L1 in range(0, maxL + 1):
        for L2 in range(L1 + 1, maxL + 1):
            if tier == "quick" and (L2 - L1) not in (1, 3, 4, 5, 8):
                continue
            ents.append(Entry("pad_%d_%d" % (L1, L2), (lambda k, L1=L1, L2=L2: run_padding(k, L1, L2)),
                              tuple("a%d" % i for i in range(L1)) + tuple("b%d" % i for i in range(L2)), tags={"c20", "obs", "pad"}))
    ents.append(Entry("ggh_out_4", (lambda k: ggh_output(k, 4)), tuple("b%d" % i for i in range(4)),
                      assume=(lambda k: [((k.v("b%d" % i) == 0) | (k.v("b%d" % i) == 1)) for i in range(4)]),
                      tags={"c20", "wires", "ggh", "trace"}))
    for nb in ((4,) if tier == "quick" else (4, 16)):
        ents.append(Entry("ggh_%d" % nb, (lambda k, nb=nb: run_ggh(k, nb)), tuple("b%d" % i for i in range(nb)),
                          assume=(lambda k, nb=nb: [((k.v("b%d" % i) == 0) | (k.v("b%d" % i) == 1)) for i in range(nb)]),
                          tags={"c20", "obs", "ggh"}))
    return ents


def by_name(n=4, tier="thorough"):
    return {e.name: e for e in build(n, tier)}
