"""Recording stand-in for the flatbuffers package (absent from the sandbox; DESIGN section 4).

Builder records tables (slot -> value), vectors (element size + elements in final order) and the finished root as a
tree of plain Python objects; Output() returns a Message object instead of bytes.  Byte-level FlatBuffers framing is
the real library's job and outside the claim -- what pysnark asks the builder to encode is what is checked."""
from . import number_types, compat, table, util, encode, packer   # noqa: F401


class Ref:
    """an 'offset' handed back by EndObject/EndVector"""
    __slots__ = ("node",)

    def __init__(self, node):
        self.node = node

    def __int__(self):
        return id(self.node)


class Table:
    def __init__(self, nslots):
        self.nslots = nslots
        self.slots = {}

    def __repr__(self):
        return "Table(%r)" % (self.slots,)


class Vector:
    def __init__(self, elem_size, num, align):
        self.elem_size, self.num, self.align = elem_size, num, align
        self.items = []

    def __repr__(self):
        return "Vector(%d x %d: %r)" % (self.elem_size, self.num, self.items[:8])


class Message:
    def __init__(self, root, size_prefixed):
        self.root = root
        self.size_prefixed = size_prefixed

    def __repr__(self):
        return "Message(size_prefixed=%s, %r)" % (self.size_prefixed, self.root)


class Builder:
    def __init__(self, initial_size=1024):
        self.cur_table = None
        self.cur_vec = None
        self.finished = None
        self.log = []

    # tables
    def StartObject(self, numfields):
        assert self.cur_table is None and self.cur_vec is None, "nested object/vector construction"
        self.cur_table = Table(numfields)

    def _slot(self, kind, slot, value, default):
        assert self.cur_table is not None
        assert 0 <= slot < self.cur_table.nslots, "slot out of range"
        self.cur_table.slots[slot] = (kind, value.node if isinstance(value, Ref) else value)

    def PrependUOffsetTRelativeSlot(self, o, x, d): self._slot("offset", o, x, d)
    def PrependUint8Slot(self, o, x, d): self._slot("u8", o, x, d)
    def PrependUint64Slot(self, o, x, d): self._slot("u64", o, x, d)
    def PrependBoolSlot(self, o, x, d): self._slot("bool", o, x, d)

    def EndObject(self):
        t, self.cur_table = self.cur_table, None
        return Ref(t)

    # vectors (elements are PREpended: the final order is the reverse of the call order)
    def StartVector(self, elemSize, numElems, alignment):
        assert self.cur_table is None and self.cur_vec is None, "nested object/vector construction"
        self.cur_vec = Vector(elemSize, numElems, alignment)

    def _prep(self, kind, x):
        assert self.cur_vec is not None
        self.cur_vec.items.insert(0, (kind, x.node if isinstance(x, Ref) else x))

    def PrependUint64(self, x): self._prep("u64", x)
    def PrependByte(self, x): self._prep("u8", x)
    def PrependUint8(self, x): self._prep("u8", x)
    def PrependUOffsetTRelative(self, x): self._prep("offset", x)

    def EndVector(self, *a):
        v, self.cur_vec = self.cur_vec, None
        return Ref(v)

    def Finish(self, root, *a):
        self.finished = Message(root.node, False)

    def FinishSizePrefixed(self, root, *a):
        self.finished = Message(root.node, True)

    def Output(self):
        assert self.finished is not None
        return self.finished
