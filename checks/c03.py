"""C03: assertions and declared types are enforced inside the circuit.
(a) accepted at run time  => the asserted relation holds and the recorded witness satisfies the constraints;
(b) rejected at run time  => the constraints the call emits (ignore_errors structure) are unsatisfiable for every
    choice of the auxiliary witness -- "the relation enforced in-circuit is exactly the one the run-time check applies"."""
import z3

from symtrace import engine as E, harness as H, oblig as O
from symtrace.r1cs import Sys
from symtrace.concrete import Kit
from . import catalogue as CAT
from . import common as C
from .catjob import lookup, Job
from .c02 import adversarial_assignment

PID = "C03"


def jobs(tier):
    js = []
    ns = [4] if tier == "quick" else [4, 8, 16]
    for n in ns:
        bound = (1 << 64) if tier == "quick" else (1 << 120)
        for e in CAT.build(n, tier if n == 4 else "quick"):
            if "assert" not in e.tags:
                continue
            js.append(dict(name="%s/n%d" % (e.name, n), entry=e.name, backend="snarkjs",
                           cfg=dict(n=n, r=2, guard=None, bound=bound), tier=tier, weight=n))
    from . import cat_c16
    for e in cat_c16.build(4, tier):
        if "unpack" in e.tags and "assert" in e.tags:
            js.append(dict(name="%s/n4" % e.name, entry=e.name, backend="snarkjs", catalogue="checks.cat_c16",
                           cfg=dict(n=4, r=2, guard=None, bound=(1 << 20)), tier=tier, weight=1))
    from . import cat_c14
    # fixed-point assertions at several (bitlength, resolution) pairs: the scale of plain int/float operands must follow
    # the configured resolution, and the width must leave room for accepted operands at that scale
    confs = [(8, 2), (16, 4)] if tier == "quick" else [(8, 2), (16, 4), (16, 8), (16, 10), (24, 12)]
    for (n, r) in confs:
        for e in cat_c14.build(n, "quick"):
            if "assert" in e.tags:
                if e.name == "fxp_assert_range" and n > 8:
                    continue        # two 16-bit decompositions on one path: the path-model query does not return; n=8 here,
                                    # the int-constant operand at other resolutions is covered by the _Fi entries
                js.append(dict(name="%s/n%dr%d" % (e.name, n, r), entry=e.name, backend="snarkjs", catalogue="checks.cat_c14",
                               cfg=dict(n=n, r=r, guard=None, bound=(1 << (n + 6))), tier=tier, weight=2))
    for e in CAT.build(4, "quick"):
        if e.name in ("assert_lt_ss", "assert_eq_ss", "assert_positive", "assert_range_cc", "assert_nonzero", "assert_ge_sc3"):
            for pre in (["false_region"], ["aborted_region"], ["self_first"]):
                js.append(dict(name="%s/n4/after-%s" % (e.name, pre[0]), entry=e.name, backend="snarkjs",
                               cfg=dict(n=4, r=2, guard=None, bound=(1 << 64), prelude=pre), tier=tier, weight=2))
    return js


def run_job(env, spec):
    entry = lookup(spec)
    job = Job(spec.get("pid", PID), env, spec, entry, spec.get("catalogue", "checks.catalogue"))
    job.cfg["want_ref"] = False
    kit = Kit(env, None, job.cfg["n"], job.cfg.get("r", 2))
    # run E: errors on
    tracesE = job.explore()
    valsE = job.vals
    accepted = [t for t in tracesE if t.path.ok]
    rejected = [t for t in tracesE if not t.path.ok]
    for t in accepted:
        pi = t.extra["idx"]
        E.ENG.enter_analysis(t.path)
        kit.vals = valsE
        rel = H.T_bool(entry.ref(kit))
        st, m = H.solve(t.path.facts(), z3.Not(rel), job.timeout, label="C03 %s accepted=>relation" % job.name)
        job.obligation(st)
        if st == "sat":
            inputs = H.model_inputs(m, valsE)
            job.finding("c03_accepted_false", "operands %s are accepted although the asserted relation is false" % inputs,
                        dict(kind="c03_accepted_false", inputs=inputs), facts=t.path.facts(), goal=z3.Not(rel), model=m)
        elif st == "unknown":
            job.inconclusive("path %d accepted=>relation: unknown" % pi)
        for ob in O.c01_obligations(env, t, job.timeout, label=job.name):
            job.obligation(ob["status"])
            if ob["status"] == "sat":
                inputs = H.model_inputs(ob["model"], valsE)
                job.finding("c03_accepted_unsat", "accepted operands %s leave constraint %d unsatisfied" % (inputs, ob["idx"]),
                            dict(kind="c03_accepted_unsat", inputs=inputs))
            elif ob["status"] == "unknown":
                job.inconclusive("path %d constraint %d: unknown" % (pi, ob["idx"]))
    if spec.get("no_circuit"):
        return job.done()          # plain (non-secret) values: only the run-time side exists
    # constraint structure for arbitrary operands: ignore_errors run (or an accepted path for constructors that always raise)
    struct = None
    if "decl" not in entry.tags:
        job2 = Job(spec.get("pid", PID), env, spec, entry, spec.get("catalogue", "checks.catalogue"))
        job2.cfg.update(want_ref=False, ignore=True)
        tI = [t for t in job2.explore() if t.path.ok]
        job.res["paths"] += job2.res["paths"]
        job.res["tv"] += job2.res["tv"]
        job.res["errors"] += job2.res["errors"]
        if tI:
            canon = {O.canon_trace(env, t, with_result=False) for t in tI}
            if len(canon) > 1:
                job.inconclusive("ignore_errors structure is value dependent (see C06); using the first path")
            struct = (tI[0], job2.vals)
    elif accepted:
        struct = (accepted[0], valsE)
    if struct is None:
        job.inconclusive("no completed path to take the constraint structure from")
        return job.done()
    tS, valsS = struct
    # operands of the structure run are the input variables themselves (same z3 constants in every run)
    pubt, privt = H.wire_terms(tS)
    fixed, bounds = {}, {}
    M = job.cfg.get("bound")
    for nm, key in tS.operands:
        fixed[key] = valsE[nm].t
        if M is not None:
            bounds[key] = (-M + 1, M - 1)
    sysm = Sys(env.P, len(tS.pub), len(tS.priv), tS.cons, fixed, tag="w", bounds=bounds)
    enc = sysm.encode(skip_fixed=False)     # no honest witness for rejected operands: every constraint counts
    twin_done = False
    for t in rejected:
        pi = t.extra["idx"]
        facts = t.path.facts() + enc
        st, m = H.solve(facts, [], job.timeout, label="C03 %s rejected=>unsatisfiable" % job.name)
        job.obligation(st)
        if st == "unknown":
            job.inconclusive("path %d rejected=>unsat: unknown (%s)" % (pi, m))
        elif st == "sat":
            def remodel(mm):
                adv, _ = adversarial_assignment(mm, sysm, tS)
                return dict(inputs=H.model_inputs(mm, valsE), adversarial=adv)
            rm = remodel(m)
            _, values = adversarial_assignment(m, sysm, tS)
            bad = sysm.check_model(values)
            if bad:
                job.res["errors"].append("%s: model fails exact validation %s" % (job.name, bad[:3]))
                continue
            job.vals = valsE
            job.finding("c03_rejected_provable",
                        "operands %s are rejected by the run-time check (%s) but the emitted constraints are satisfiable" % (
                            rm["inputs"], type(t.path.exc).__name__),
                        dict(kind="c03_rejected_provable", inputs=rm["inputs"], adversarial=rm["adversarial"],
                             struct_ignore=("decl" not in entry.tags)),
                        facts=facts, goal=[], model=m, remodel=remodel)
        job.sample(dict(path=pi, rejected_by=repr(t.path.exc)[:80], constraints=len(tS.cons), free_wires=len(sysm.free_wires()),
                        result=st))
    if accepted and tS.cons:
        # vacuity twin: on an accepted path the same system must be satisfiable (otherwise (b) is vacuous)
        st, _ = H.solve(accepted[0].path.facts() + enc, [], job.timeout)
        job.twin(st == "sat")
    return job.done()


def main(argv):
    tier = C.tier()
    rep = C.Report(PID)
    rep.functions |= {"pysnark.runtime.LinComb.assert_eq/ne/lt/le/gt/ge/zero/nonzero/positive/range, to_bits",
                      "pysnark.boolean.LinCombBool.__init__, PubValBool, PrivValBool"}
    rep.bounds = dict(bitlength=[4] if tier == "quick" else [4, 8, 16], widths="1,2,n-1,n,n+1",
                      operand_magnitude="< 2^64" if tier == "quick" else "< 2^120 (an R1CS identifies integers congruent mod p)")
    rep.assumptions = ["constraint structure for rejected operands is taken from the ignore_errors run (value independence: C06)",
                       "packer range checks: C16; fixed-point assertions: C14"]
    js = jobs(tier)
    if argv:
        js = [j for j in js if any(a in j["name"] for a in argv)]
    for r in C.run_jobs("c03", js):
        rep.absorb(r)
    return rep.finish("./check C03")
