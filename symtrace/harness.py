"""Tracing catalogue entries through the real pysnark code under the engine, and the shared obligation helpers."""
import builtins
import os
import time
import z3

from . import engine as E
from . import env as ENV
from .engine import ENG, SymInt, SymBool, SymReal, T


from .concrete import Kit, flat, lincomb_of, ev_concrete, run_concrete, run_prelude


class Trace:
    __slots__ = ("path", "pub", "priv", "cons", "result", "ref", "state", "extra", "operands")


def run_entry(env, entry, cfg):
    """explore entry under cfg -> list[Trace].  cfg keys: n, r, guard (None|'sym'|0|1|('nest',k)), ignore (bool),
    bound (int or None: |inputs| < bound), extra_assume (callable vals->list of z3 bools)"""
    n, r = cfg.get("n", 4), cfg.get("r", 2)
    names = list(entry.ins)
    gmode = cfg.get("guard")
    gnames = []
    if gmode == "sym":
        gnames = ["g"]
    elif builtins.isinstance(gmode, tuple) and gmode[0] == "nest":
        gnames = ["g%d" % i for i in range(gmode[1])]
    vals = {nm: E.X(nm) for nm in names + gnames}
    assume = []
    M = cfg.get("bound")
    if M is not None:
        for nm in names:
            assume.append(z3.And(vals[nm].t > -M, vals[nm].t < M))
    for nm in gnames:
        # guards are documented to be 0/1; other guard values are covered by C08's own harness
        assume.append(z3.Or(vals[nm].t == 0, vals[nm].t == 1))
    for nm in cfg.get("assume_bits") or ():
        if nm in vals:
            assume.append(z3.Or(vals[nm].t == 0, vals[nm].t == 1))
    if cfg.get("extra_assume"):
        assume += cfg["extra_assume"](vals)
    if entry.assume is not None:
        assume += [T_bool(c) for c in entry.assume(Kit(env, vals, n, r))]

    def body():
        ENV.reset(env, bitlength=n, resolution=r)
        k = Kit(env, vals, n, r)
        env.last_kit = k
        rt = env.rt
        if cfg.get("ignore"):
            rt.ignore_errors(True)
        if rt is None:
            res = entry.fn(k)
            return res, ([], [], []), None, None, []
        run_prelude(env, cfg, entry)

        def fn():
            run_prelude(env, cfg, entry, key="inner_prelude")
            return entry.fn(k)
        for gn in reversed(gnames):
            fn = (lambda inner, gn=gn: (lambda: rt.guarded(k.G(gn))(inner)()))(fn)
        if gmode in (0, 1):
            fn = (lambda inner: (lambda: rt.guarded(rt.PrivVal(gmode))(inner)()))(fn)
        env.track = bool(cfg.get("track_all"))
        env.last_kit = k
        try:
            res = fn()
        finally:
            env.track = False
        state = (rt.guard, rt._ignore_errors, rt.LinComb.ONE is rt.LinComb.ONE_SAFE)
        snap = ENV.snapshot(env)
        if cfg.get("track_all"):
            res = [res, list(env.created)]
        ref = None
        if entry.ref is not None and cfg.get("want_ref", True):
            try:
                ref = ("ok", entry.ref(k))
            except E.Abort:
                raise
            except E.Unsupported:
                raise
            except Exception as ex:
                ref = ("exc", ex)
        return res, snap, state, ref, list(k.operands)

    def body_exc():
        # keep the recorder snapshot also when the body raises
        try:
            return body()
        except E.Abort:
            raise
        except E.Unsupported:
            raise
        except Exception as ex:
            ex._verif_snap = ENV.snapshot(env)
            ex._verif_operands = list(env.last_kit.operands)
            raise

    paths = ENG.explore(body_exc, assume=assume)
    traces = []
    for p in paths:
        t = Trace()
        t.path = p
        t.extra = {}
        if p.ok:
            t.result, (t.pub, t.priv, t.cons), t.state, t.ref, t.operands = p.out[1]
        else:
            t.result = None
            t.pub, t.priv, t.cons = getattr(p.exc, "_verif_snap", ([], [], []))
            t.state = None
            t.ref = None
            t.operands = getattr(p.exc, "_verif_operands", [])
        traces.append(t)
    return traces, vals


def T_bool(c):
    if type(c) is SymBool:
        return c.t
    if type(c) is bool:
        return z3.BoolVal(c)
    if z3.is_expr(c):
        return c
    raise E.Unsupported("assumption is not boolean: %r" % (c,))


# ------------------------------------------------------------------------------------------ wires and evaluation

def wire_terms(t):
    return [T(v) for v in t.pub], [T(v) for v in t.priv]


def ev(lc, pubt, privt):
    """evaluate a recorder linear combination {var: coeff} on wire terms (var 0 = one, k>0 pub k, k<0 priv -k)"""
    s = None
    P = ENG.modulus
    for k, c in lc.items():
        if type(c) is int and P is not None and (c >= P or c < -P):
            c %= P            # every use of these terms is a congruence modulo the field prime; keeps numerals small
        w = z3.IntVal(1) if k == 0 else (pubt[k - 1] if k > 0 else privt[-k - 1])
        term = T(c) * w if not (type(c) is int and c == 1) else w
        s = term if s is None else s + term
    return z3.IntVal(0) if s is None else s


# ------------------------------------------------------------------------------------------ solving with bookkeeping

class Stats:
    def __init__(self):
        self.queries = 0
        self.unsat = 0
        self.sat = 0
        self.unknown = 0
        self.syntactic = 0
        self.time = 0.0
        self.samples = []
        self.cross = dict(cross_checked=0, cross_agree=0, cross_inconclusive=0, cross_disagree=0)
        self.cross_disagreements = []

    def as_dict(self):
        d = dict(queries=self.queries, unsat=self.unsat, sat=self.sat, unknown=self.unknown,
                 syntactic=self.syntactic, solver_s=round(self.time, 3))
        d.update(self.cross)
        return d


STATS = Stats()


def solve(facts, goal_neg, timeout_ms=20000, label=None, want_model=True):
    """check facts AND goal_neg.  returns ('unsat',None) | ('sat',model) | ('unknown',reason)"""
    # portfolio of two z3 configurations: the incremental SMT core (SimpleSolver) first -- the default strategy's
    # preprocessing stalls on the Horner-form skolem axioms (probe: unknown after 20 s vs sat in 0.00 s) -- then the
    # default tactic-based solver if the core gives up
    goals = list(goal_neg) if builtins.isinstance(goal_neg, (list, tuple)) else [goal_neg]
    t0 = time.time()
    r = z3.unknown
    for mk, share in ((z3.SimpleSolver, 0.5), (z3.Solver, 0.25), (z3.SimpleSolver, 2.0)):
        s = mk()
        s.set("timeout", max(1000, int(timeout_ms * share)))
        for f in facts:
            s.add(f)
        for g in goals:
            s.add(g)
        r = E.guarded_check(s, max(1000, int(timeout_ms * share)))
        if r != z3.unknown:
            break
    dt = time.time() - t0
    STATS.queries += 1
    STATS.time += dt
    if label and len(STATS.samples) < 6:
        STATS.samples.append(dict(label=label, result=str(r), seconds=round(dt, 3)))
    if r == z3.unsat:
        STATS.unsat += 1
        _UNSAT_TOTAL[0] += 1
        if CROSS_EVERY and _UNSAT_TOTAL[0] % CROSS_EVERY == 0:
            cross_check(facts, goals, label)
        return "unsat", None
    if r == z3.sat:
        STATS.sat += 1
        return "sat", s.model()
    STATS.unknown += 1
    return "unknown", s.reason_unknown()


_UNSAT_TOTAL = [0]        # per worker process (the per-job statistics are reset for every job)
CROSS_EVERY = int(os.environ.get("VERIF_CROSSCHECK_EVERY", "25" if os.environ.get("VERIF_TIER") == "thorough" else "0"))


def cross_check(facts, goals, label):
    """second solver (thorough tier): every CROSS_EVERY-th `unsat` answer is dumped as SMT-LIB2 and given to the z3 4.8.12
    binary (a different release of the solver, its own front end); `sat` there is a disagreement and makes the obligation
    inconclusive, `unknown`/timeout/error lines are counted as inconclusive cross-checks only"""
    import subprocess
    import tempfile
    s = z3.Solver()
    for f in facts:
        s.add(f)
    for g in goals:
        s.add(g)
    fd, path = tempfile.mkstemp(suffix=".smt2", prefix="verif_cc_")
    try:
        with os.fdopen(fd, "w") as fh:
            fh.write(s.to_smt2())
        STATS.cross["cross_checked"] += 1
        try:
            p = subprocess.run(["/usr/bin/z3", "-T:20", path], capture_output=True, text=True, timeout=40)
            out = p.stdout.strip().splitlines()
        except Exception:
            out = ["timeout"]
        if any("(error" in l for l in out) or not out:
            STATS.cross["cross_inconclusive"] += 1
        elif out[0].strip() == "unsat":
            STATS.cross["cross_agree"] += 1
        elif out[0].strip() == "sat":
            STATS.cross["cross_disagree"] += 1
            STATS.cross_disagreements.append(str(label))
        else:
            STATS.cross["cross_inconclusive"] += 1
    finally:
        try:
            os.remove(path)
        except OSError:
            pass


def model_inputs(model, vals):
    """concrete values of the harness inputs in a model (0 for don't-cares)"""
    out = {}
    for nm, v in vals.items():
        mv = model.eval(v.t, model_completion=True)
        out[nm] = mv.as_long()
    return out


def model_eval_int(model, term):
    mv = model.eval(term, model_completion=True)
    if z3.is_int_value(mv):
        return mv.as_long()
    mv = z3.simplify(mv)
    if z3.is_int_value(mv):
        return mv.as_long()
    raise E.Unsupported("model value is not an integer: %s" % mv)


# ------------------------------------------------------------------------------------------ cone-of-influence slicing

def _vars_of(term, cache):
    tid = term.get_id()
    r = cache.get(tid)
    if r is not None:
        return r
    out = set()
    todo = [term]
    seen = set()
    while todo:
        t = todo.pop()
        i = t.get_id()
        if i in seen:
            continue
        seen.add(i)
        if z3.is_const(t) and t.decl().kind() == z3.Z3_OP_UNINTERPRETED:
            out.add(i)
        else:
            todo.extend(t.children())
    cache[tid] = out
    return out


class Slicer:
    """facts that can influence a goal within `hops` steps of shared variables.  Any subset of the facts is sound for an
    unsat answer; a sat/unknown answer on a slice decides nothing and the caller falls back to all facts."""

    def __init__(self, facts):
        self.facts = list(facts)
        self.cache = {}
        self.fvars = [_vars_of(f, self.cache) for f in self.facts]
        self.index = {}
        for i, vs in enumerate(self.fvars):
            for v in vs:
                self.index.setdefault(v, []).append(i)

    def slice(self, goal, hops=2, limit=400):
        vs = set(_vars_of(goal, self.cache))
        chosen = set()
        frontier = set(vs)
        for _ in range(hops):
            new = set()
            for v in frontier:
                for i in self.index.get(v, ()):
                    if i not in chosen:
                        chosen.add(i)
                        new |= self.fvars[i]
            frontier = new - vs
            vs |= new
            if len(chosen) > limit:
                break
        return [self.facts[i] for i in sorted(chosen)]
