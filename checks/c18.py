"""C18: proof artefacts are emitted at exit only for successful runs, and completely.
Part A: hook logic on a symbolic termination event (engine).  Part B: every row of the interpreter model is validated
against the real CPython + pysnark in a subprocess, for each file-writing backend and crash position."""
import json
import os
import shutil
import subprocess
import sys
import tempfile
import time
from concurrent.futures import ThreadPoolExecutor

from . import cat_c18 as CAT18
from . import common as C
from .obsjob import run_obs_job
from .catjob import lookup

PID = "C18"
REPLAY_PY = C.REPLAY_PY

from .c18_rows import SCRIPT, EVENTS, ARTEFACTS, run_row, replay   # z3-free: also used by the replay interpreter


def part_b(rep, tier, known):
    rows = []
    for be in ("snarkjs", "zkinterface", "qaptools"):
        for ev in EVENTS:
            for pos in ((0, 3) if tier == "quick" else (0, 1, 2, 3)):
                for ap in ((True,) if (tier == "quick" and ev not in ("falloff", "sys_exit_0", "exception")) else (True, False)):
                    rows.append((be, ev, pos, ap))
    with ThreadPoolExecutor(max_workers=16) as ex:
        results = list(ex.map(run_row, rows))
    nviol = 0
    model_ok = 0
    for r in results:
        rep.obligations += 2
        # (1) the interpreter model: the status this row produces is the one the table predicts
        if r["status"] == r["want_status"]:
            model_ok += 1
            rep.discharged += 1
        else:
            rep.errors.append("interpreter model row %s/%s: status %s, table says %s" % (r["backend"], r["event"], r["status"], r["want_status"]))
        # (2) the property on the real process
        complete = sorted(r["artefacts"]) == sorted(ARTEFACTS[r["backend"]])
        none = not r["artefacts"]
        should = (r["status"] == 0 and r["autoprove"] and not r["event"].startswith("os_exit"))
        good = (complete if should else none) and not r["hook_failed"]
        if good:
            rep.discharged += 1
        else:
            what = "%s, event %s at statement %d, autoprove=%s: status %d, artefacts %s%s" % (
                r["backend"], r["event"], r["pos"], r["autoprove"], r["status"], r["artefacts"] or "none",
                ", exit hook failed" if r["hook_failed"] else "")
            kid = None
            for kf in known:
                if kf.get("kind") == "c18_process" and __import__("re").fullmatch(kf["harness"], r["event"]) \
                        and (not kf.get("hook_failed")) == (not r["hook_failed"]):
                    kid = kf
                    break
            rep.findings.append(dict(what=kid["what"] if kid else what, known=kid["id"] if kid else None,
                                     replay=dict(kind="ext:c18", module="checks.c18_rows", row=[r["backend"], r["event"], r["pos"], r["autoprove"]])))
    rep.tv += model_ok
    rep.extra["interpreter_model_rows_validated"] = model_ok
    rep.extra["process_rows"] = len(results)
    if len(rep.samples) < 12 and results:
        rep.samples.append({k: v for k, v in results[0].items() if k != "stderr"})


def jobs(tier):
    return [dict(name=e.name, entry=e.name, backend="snarkjs", cfg=dict(n=4, r=2, guard=None, bound=None), tier=tier,
                 catalogue="checks.cat_c18", pid=PID, weight=1) for e in CAT18.build(4, tier)]


def run_job(env, spec):
    return run_obs_job(PID, env, spec, lookup(spec), "checks.cat_c18")


def main(argv):
    tier = C.tier()
    rep = C.Report(PID)
    rep.functions |= {"pysnark.atexitmaybe.ExitOverrider.exit/.excepthook", "pysnark.atexitmaybe.maybe / maybe_", "pysnark.runtime.final"}
    rep.bounds = dict(exit_codes="None, int in [0,255] (symbolic), True, False, '', 'boom', dyadic float (symbolic), []",
                      ways_of_terminating=list(CAT18.ROUTES) + ["os._exit (process rows only)"], autoprove=[True, False],
                      backend_has_process_snark=[True, False], crash_positions="0 and 3 of 3 statements (quick); 0..3 (thorough)",
                      backends_process_rows=["snarkjs", "zkinterface (stub)", "qaptools (stub tools)"])
    rep.assumptions = ["interpreter model (which hooks CPython calls, which status results) is mine; every row is validated in a subprocess on every run",
                       "integers outside [0,255] (sys.exit(256) -> status 0) are outside the documented range of exit statuses and outside the claim"]
    js = jobs(tier)
    if argv:
        js = [j for j in js if any(a in j["name"] for a in argv)]
    for r in C.run_jobs("c18", js):
        rep.absorb(r)
    if not argv:
        part_b(rep, tier, C.load_known(PID))
    return rep.finish("./check C18")
