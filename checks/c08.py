"""C08: guard state is restored on every exit path and nests as a conjunction (bounded histories, symbolic conditions)."""
from . import cat_c08 as CAT8
from . import common as C
from .obsjob import run_obs_job

PID = "C08"


def jobs(tier):
    js = [dict(name=e.name, entry=e.name, backend="snarkjs", cfg=dict(n=4, r=2, guard=None, bound=None), tier=tier,
               weight=len(e.ins), catalogue="checks.cat_c08", pid=PID, analysis="obs") for e in CAT8.build(4, tier)]
    # the guard wires built for nested regions must not depend on the condition values (one circuit for all of them)
    for nm in ("hist_G[G]_e0", "hist_G[P]_e0", "hist_P[G]_e0", "hist_G[I]_e0", "hist_GG_e0", "hist_G[G]G_e0"):
        c1 = dict(n=4, r=2, guard=None, bound=None, want_ref=False, assume_bits=["c0", "c1", "c2", "c3"])
        js.append(dict(name=nm + "/trace", entry=nm, backend="snarkjs", cfg=c1, cfgs=[c1], tier=tier, weight=3,
                       catalogue="checks.cat_c08", pid=PID, analysis="trace", trace_results=False))
    return js


def run_job(env, spec):
    if spec.get("analysis") == "trace":
        from . import c06
        return c06.run_job(env, spec)
    entry = CAT8.by_name(4, "thorough")[spec["entry"]]
    return run_obs_job(PID, env, spec, entry, "checks.cat_c08")


def main(argv):
    tier = C.tier()
    rep = C.Report(PID)
    rep.functions |= {"pysnark.runtime.add_guard", "pysnark.runtime.restore_guard", "pysnark.runtime.guarded",
                      "pysnark.runtime.ignore_errors", "LinComb.__and__ (nested guard = outer & cond)"}
    rep.bounds = dict(regions_per_history=3 if tier == "quick" else 4, nesting_depth=2 if tier == "quick" else 3,
                      condition_values="symbolic in [-1, 2]", initial_error_mode=[False, True],
                      region_kinds="runtime.guarded (normal exit / exception at every statement position), add_guard+restore_guard pair")
    rep.assumptions = ["an exception escaping a block-API region (no exit event in the API) is outside the claim",
                       "that the guard WIRE equals the product is the soundness of secret & secret (C02 int_and_ss)"]
    js = jobs(tier)
    if argv:
        js = [j for j in js if any(a in j["name"] for a in argv)]
    for r in C.run_jobs("c08", js):
        rep.absorb(r)
    return rep.finish("./check C08")
