"""Polynomial normaliser modulo the field prime (DESIGN 2.3 "named reductions" / Appendix A).

canon(term) -> {monomial: coeff mod P}; monomial = sorted tuple of atom keys (with multiplicity).
Named reductions r = t mod P are replaced by the canonical form of their pre-image (r = t in Z/P), named products
m = a*b by the product of the canonical forms (expanded when small, otherwise a hash-consed product atom).
Equal canonical forms => congruent for all values (sound); unequal forms decide nothing (fall back to the solver).
"""
import z3


class Normaliser:
    def __init__(self, P, prod_defs, red_defs, expand_limit=600, max_degree=24, subst=None):
        self.P = P
        self.prod_defs = prod_defs
        self.red_defs = red_defs
        self.memo = {}
        self.subst = subst or {}     # z3 var id -> int, equalities decided on the path (e.g. guard values)
        self.keep = []          # keep terms alive so z3 ids stay unique
        self.prod_atoms = {}
        self.expand_limit = expand_limit
        self.max_degree = max_degree
        self._prodvars = None

    def _key(self, poly):
        return tuple(sorted(poly.items()))

    def product_var(self, a, b):
        """a named variable known to equal a*b (looked up by canonical forms of the factors), or None"""
        if self._prodvars is None:
            self._prodvars = {}
            for tid, (m, x, y) in list(self.prod_defs.items()):
                if z3.is_const(m) and m.decl().kind() == z3.Z3_OP_UNINTERPRETED:
                    kx, ky = self._key(self.canon(x)), self._key(self.canon(y))
                    self._prodvars[(kx, ky) if kx <= ky else (ky, kx)] = m
        ka, kb = self._key(self.canon(a)), self._key(self.canon(b))
        return self._prodvars.get((ka, kb) if ka <= kb else (kb, ka))

    # polynomials are dicts {monomial tuple: coeff}
    def _add(self, a, b, sign=1):
        r = dict(a)
        P = self.P
        for m, c in b.items():
            v = (r.get(m, 0) + sign * c) % P
            if v:
                r[m] = v
            else:
                r.pop(m, None)
        return r

    def _scale(self, a, c):
        P = self.P
        c %= P
        if c == 0:
            return {}
        return {m: (v * c) % P for m, v in a.items() if (v * c) % P}

    def _const(self, a):
        """value if polynomial is a constant else None"""
        if not a:
            return 0
        if len(a) == 1 and () in a:
            return a[()]
        return None

    def _mul(self, a, b):
        ca, cb = self._const(a), self._const(b)
        if ca is not None:
            return self._scale(b, ca)
        if cb is not None:
            return self._scale(a, cb)
        dega = max(len(m) for m in a)
        degb = max(len(m) for m in b)
        if len(a) * len(b) <= self.expand_limit and dega + degb <= self.max_degree:
            P = self.P
            r = {}
            for ma, va in a.items():
                for mb, vb in b.items():
                    m = tuple(sorted(ma + mb))
                    v = (r.get(m, 0) + va * vb) % P
                    if v:
                        r[m] = v
                    else:
                        r.pop(m, None)
            return r
        ka = tuple(sorted(a.items()))
        kb = tuple(sorted(b.items()))
        key = (ka, kb) if ka <= kb else (kb, ka)
        atom = self.prod_atoms.get(key)
        if atom is None:
            atom = ("prod", len(self.prod_atoms))
            self.prod_atoms[key] = atom
        return {(atom,): 1}

    def canon(self, t):
        tid = t.get_id()
        r = self.memo.get(tid)
        if r is not None:
            return r
        self.keep.append(t)
        r = self._canon(t)
        self.memo[tid] = r
        return r

    def _canon(self, t):
        if z3.is_int_value(t):
            v = t.as_long() % self.P
            return {(): v} if v else {}
        k = t.decl().kind()
        if t.get_id() in self.prod_defs and not (k == z3.Z3_OP_UNINTERPRETED and t.num_args() == 0):
            _, a, b = self.prod_defs[t.get_id()]
            return self._mul(self.canon(a), self.canon(b))
        if k == z3.Z3_OP_ADD:
            acc = {}
            for c in t.children():
                acc = self._add(acc, self.canon(c))
            return acc
        if k == z3.Z3_OP_SUB:
            ch = t.children()
            acc = self.canon(ch[0])
            for c in ch[1:]:
                acc = self._add(acc, self.canon(c), -1)
            return acc
        if k == z3.Z3_OP_UMINUS:
            return self._scale(self.canon(t.children()[0]), -1)
        if k == z3.Z3_OP_MUL:
            ch = t.children()
            acc = self.canon(ch[0])
            for c in ch[1:]:
                acc = self._mul(acc, self.canon(c))
            return acc
        if k == z3.Z3_OP_UNINTERPRETED and t.num_args() == 0:
            tid = t.get_id()
            if tid in self.subst:
                v = self.subst[tid] % self.P
                return {(): v} if v else {}
            if tid in self.red_defs:
                return self.canon(self.red_defs[tid][1])
            if tid in self.prod_defs:
                _, a, b = self.prod_defs[tid]
                return self._mul(self.canon(a), self.canon(b))
            return {(("v", tid),): 1}
        if k == z3.Z3_OP_ITE:
            # ite(c, a, b) with congruent branches is that value
            ch = t.children()
            a, b = self.canon(ch[1]), self.canon(ch[2])
            if a == b:
                return a
        return {(("o", t.get_id()),): 1}

    def is_zero(self, t):
        return not self.canon(t)

    def congruent(self, a, b):
        return self.canon(a) == self.canon(b)
