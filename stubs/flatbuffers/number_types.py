class _Flags:
    @staticmethod
    def py_type(x):
        return x


UOffsetTFlags = _Flags
Uint8Flags = _Flags
Uint64Flags = _Flags
