"""C14: fixed-point operations equal exact scaled-integer arithmetic (or raise)."""
from . import cat_c14 as CAT14
from . import common as C
from . import c01, c02, c03, c04, c05
from .obsjob import run_obs_job
from .catjob import lookup

PID = "C14"
MODS = dict(value=c05, witness=c01, wire=c04, enforce=c03, unique=c02)
SOUND = {"lt", "le", "gt", "ge", "eq", "ne", "add", "sub", "neg", "abs", "sel"}


def jobs(tier):
    js = []
    cfgs = [dict(n=8, r=2)] if tier == "quick" else [dict(n=8, r=2), dict(n=16, r=8), dict(n=4, r=2)]
    for cf in cfgs:
        bound = 1 << 30
        for e in CAT14.build(cf["n"], tier):
            tagc = "n%dr%d" % (cf["n"], cf["r"])
            base = dict(entry=e.name, backend="snarkjs", tier=tier, pid=PID, catalogue="checks.cat_c14", weight=cf["n"])
            cfg = dict(n=cf["n"], r=cf["r"], guard=None, bound=bound)
            if "obs" in e.tags:
                if e.name == "fxp_two_resolutions_obs" and cf["n"] > 8:
                    continue        # three resolutions x four operations at 16 bits do not finish in 1500 s: bitlengths 4 and 8
                js.append(dict(base, name="%s/%s/obs" % (e.name, tagc), analysis="obs", cfg=dict(cfg)))
                continue
            if "assert" in e.tags:
                js.append(dict(base, name="%s/%s/enforce" % (e.name, tagc), analysis="enforce", cfg=dict(cfg)))
                continue
            js.append(dict(base, name="%s/%s/value" % (e.name, tagc), analysis="value", cfg=dict(cfg)))
            if cf == cfgs[0]:
                js.append(dict(base, name="%s/%s/witness" % (e.name, tagc), analysis="witness", cfg=dict(cfg)))
                js.append(dict(base, name="%s/%s/wire" % (e.name, tagc), analysis="wire", cfg=dict(cfg, track_all=True)))
                if e.tags & {"lt", "ge", "eq", "mul", "truediv", "add", "abs"} and e.tags & {"R=F", "R=S", "R=f1"} or "abs" in e.tags:
                    # the same under a secret guard (g symbolic) and with error checking off
                    js.append(dict(base, name="%s/%s/witness-guard" % (e.name, tagc), analysis="witness", cfg=dict(cfg, guard="sym")))
                    js.append(dict(base, name="%s/%s/wire-guard" % (e.name, tagc), analysis="wire", cfg=dict(cfg, guard="sym", track_all=True)))
                    if "truediv" not in e.tags:
                        js.append(dict(base, name="%s/%s/wire-ignore" % (e.name, tagc), analysis="wire", cfg=dict(cfg, ignore=True, track_all=True)))
                if e.name in ("fxp_lt_F_F", "fxp_ge_F_S", "fxp_mul_F_F", "fxp_truediv_F_F", "fxp_floordiv_F_i1"):
                    # histories: the same operation after a region with a false guard was left (normally / by an exception),
                    # and -- for in-range operands -- with error checking switched off
                    for pre in (["false_region"], ["aborted_region"]):
                        js.append(dict(base, name="%s/%s/value-after-%s" % (e.name, tagc, pre[0]), analysis="value",
                                       cfg=dict(cfg, prelude=pre)))
                        js.append(dict(base, name="%s/%s/witness-after-%s" % (e.name, tagc, pre[0]), analysis="witness",
                                       cfg=dict(cfg, prelude=pre)))
                    js.append(dict(base, name="%s/%s/value-ignore" % (e.name, tagc), analysis="value", cfg=dict(cfg, ignore=True),
                                   ignore_dom_bits=cf["n"] - 3))
                if "mul" in e.tags and e.tags & {"R=f1", "L=f1"}:
                    # product with a float constant: goes through the division gadget whose quotient is not range-checked
                    # (recorded finding) -- but the remainder must stay below 2^resolution: the finding's region says so,
                    # and a second result outside it is a new violation
                    js.append(dict(base, name="%s/%s/unique" % (e.name, tagc), analysis="unique",
                                   cfg=dict(cfg, bound=1 << 20, n=(4 if tier == "quick" else cfg["n"]))))
                if e.tags & SOUND:
                    # results that do not go through the (unchecked-quotient) division gadget must be uniquely determined
                    js.append(dict(base, name="%s/%s/unique" % (e.name, tagc), analysis="unique",
                                   cfg=dict(cfg, bound=1 << 20, n=(4 if tier == "quick" else cfg["n"]))))
    return js


def run_job(env, spec):
    if spec["analysis"] == "obs":
        return run_obs_job(PID, env, spec, lookup(spec), "checks.cat_c14")
    return MODS[spec["analysis"]].run_job(env, spec)


def main(argv):
    tier = C.tier()
    rep = C.Report(PID)
    rep.functions |= {"pysnark.fixedpoint.LinCombFxp.* (operators, comparisons, assertions, add_scaling, remove_scaling, val)",
                      "pysnark.fixedpoint.PubValFxp/PrivValFxp", "LinComb.__divmod__/__lt__... through which they are implemented"}
    rep.bounds = dict(configs="(n=8,r=2) quick; + (n=16,r=8), (n=4,r=2) thorough", representation_magnitude="< 2^30",
                      operand_kinds="fixed-point secret, integer secret, boolean secret, int constants {3,-3}, dyadic float constants {1.5,-0.75,2.0}",
                      float_model="float constants are exact dyadic rationals; float(v)/2^r modelled as an exact rational")
    rep.assumptions = ["non-dyadic floats and the data-loss warning path are outside the claim",
                       "an operation that raises for an operand-type combination satisfies the property ('or the operation raises')"]
    js = jobs(tier)
    if argv:
        js = [j for j in js if any(a in j["name"] for a in argv)]
    for r in C.run_jobs("c14", js):
        rep.absorb(r)
    return rep.finish("./check C14")
