"""C16: bit decomposition and packing round-trip at the requested width."""
from . import cat_c16 as CAT16
from . import common as C
from . import c01, c02, c03, c05

PID = "C16"
MODS = dict(value=c05, witness=c01, unique=c02, enforce=c03)


def jobs(tier):
    js = []
    bound = 1 << 20
    for n in ([4] if tier == "quick" else [4, 8]):
        for e in CAT16.build(n, tier):
            if e.name == "pack_secret_int64":
                continue          # 64 secret bits do not finish within the job limit; the plain path is the float-prone one
            base = dict(entry=e.name, backend="snarkjs", tier=tier, pid=PID, catalogue="checks.cat_c16", weight=len(e.ins))
            cfg = dict(n=n, r=2, guard=None, bound=bound)
            if "assert" in e.tags:
                js.append(dict(base, name="%s/n%d/enforce" % (e.name, n), analysis="enforce", cfg=dict(cfg),
                               no_circuit=("nocircuit" in e.tags)))
                continue
            js.append(dict(base, name="%s/n%d/value" % (e.name, n), analysis="value", cfg=dict(cfg)))
            if "plain" in e.tags:
                continue
            js.append(dict(base, name="%s/n%d/witness" % (e.name, n), analysis="witness", cfg=dict(cfg)))
            js.append(dict(base, name="%s/n%d/unique" % (e.name, n), analysis="unique", cfg=dict(cfg)))
    return js


def run_job(env, spec):
    return MODS[spec["analysis"]].run_job(env, spec)


def main(argv):
    tier = C.tier()
    rep = C.Report(PID)
    rep.functions |= {"pysnark.runtime.LinComb.to_bits/from_bits/check_positive/assert_positive",
                      "pysnark.pack.PackBool/PackIntMod/PackList/PackRepeat pack/unpack/bitlen"}
    rep.bounds = dict(bitlength=[4] if tier == "quick" else [4, 8], widths="1,2,3,n-1,n,n+1",
                      schemas="Bool, IntMod(m) m in {2,3,5,8,2^n+1}, List, Repeat, nested to depth 2 (quick: subset)",
                      value_magnitude="< 2^20")
    rep.assumptions = ["secret bit lists are supplied both as boolean-typed bits (what to_bits returns) and as plain secrets"]
    js = jobs(tier)
    if argv:
        js = [j for j in js if any(a in j["name"] for a in argv)]
    for r in C.run_jobs("c16", js):
        rep.absorb(r)
    return rep.finish("./check C16")
