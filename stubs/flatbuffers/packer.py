"""not needed by the writer side"""
