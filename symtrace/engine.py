"""symtrace engine: a small concolic executor for pysnark (see DESIGN.md section 2).

Symbolic integers are z3 Int terms wrapped in SymInt (NOT a subclass of int).  Execution forks only in
SymBool.__bool__; exploration is depth-first by re-execution along recorded decision prefixes.
Runs under python3-vt (CPython 3.11 + z3-solver wheel) with PYTHONPATH=/repo.
"""
import builtins
import hashlib
import os
import time
import z3


class Abort(BaseException):
    """current path is infeasible / abandoned (BaseException so `except Exception` in pysnark cannot eat it)"""


class Unsupported(BaseException):
    """the engine met a construct it does not model: harness error, never a verdict"""


class Engine:
    def __init__(self):
        self.solver = z3.Solver()
        self.feas_timeout_ms = 20000
        self.W = 40                  # default width of bit skolem decompositions
        self.modulus = None          # backend modulus: `% modulus` becomes a named reduction
        self.stats = dict(feas_queries=0, feas_time=0.0, feas_unknown=0, paths=0, aborted=0)
        self.max_paths = 4000
        self._reset_path([], ())

    # ------------------------------------------------------------------ per-path state
    def _reset_path(self, decisions, assume):
        self.frozen = False
        self.decisions = list(decisions)
        self.pos = 0
        self.pc = []
        self.axioms = []
        self.nfresh = 0
        self.bitcache = {}
        self.digitcache = {}
        self.prod_defs = {}          # z3 var id -> (var, a_term, b_term)
        self.red_defs = {}           # z3 var id -> (var, preimage term, modulus)
        self.inv_defs = {}           # z3 var id -> (var, argument term, modulus)
        self.prod_axiom_ids = set()  # ids of the nonlinear definitional axioms m == a*b
        self.prod_index = {}         # (id a, id b) sorted -> term standing for a*b
        self.decided = {}            # id of simplified branch condition -> (term, decision) on this path
        self.bools = {}              # z3 term id -> term, for terms known to take only the values 0/1 on this path
        self.tokens = []             # terms rendered as text tokens (see SymInt.__str__)
        self.uncertain = False       # a feasibility query came back unknown on this path
        self.notes = []
        self.solver.reset()
        self.solver.set("timeout", self.feas_timeout_ms)
        for a in assume:
            self.solver.add(a)
            self._learn_bool(a)
        self.assume = list(assume)

    def fresh(self, name, sort="int"):
        self.nfresh += 1
        nm = "%s%s!%d" % (getattr(self, "name_prefix", ""), name, self.nfresh)
        return z3.Int(nm) if sort == "int" else (z3.Real(nm) if sort == "real" else z3.Bool(nm))

    def mark_bool(self, t):
        self.bools[t.get_id()] = t

    def is_bool(self, t):
        if t.get_id() in self.bools:
            return True
        if z3.is_int_value(t):
            return t.as_long() in (0, 1)
        if z3.is_app(t) and t.decl().kind() == z3.Z3_OP_ITE:
            ch = t.children()
            return self.is_bool(ch[1]) and self.is_bool(ch[2])
        return False

    def add_axiom(self, a, to_solver=True):
        self.axioms.append(a)
        if to_solver:
            self.solver.add(a)

    def add_lemma(self, a):
        """a consequence of recorded axioms, given to the feasibility solver only (keeps it linear)"""
        self.solver.add(a)

    def _check(self, c):
        t0 = time.time()
        self.solver.push()
        self.solver.add(c)
        r = guarded_check(self.solver, self.feas_timeout_ms)
        self.solver.pop()
        self.stats["feas_queries"] += 1
        self.stats["feas_time"] += time.time() - t0
        if r == z3.unknown:
            self.stats["feas_unknown"] += 1
            self.uncertain = True
        return r != z3.unsat

    def enter_analysis(self, path):
        """after exploration: evaluate reference/domain expressions against a finished path without forking"""
        self.frozen = True
        self.decided = {}
        self.bools = dict(path.bools)
        self.axioms = []                 # definitions created while analysing (reference terms); caller adds them
        self.prod_defs = path.prod_defs  # shared, so the path's normaliser sees the new products
        self.red_defs = path.red_defs
        self.inv_defs = path.inv_defs
        self.prod_index = dict(path.prod_index)
        self.prod_axiom_ids = set(path.prod_axiom_ids)
        self.bitcache = dict(path.bitcache)      # same skolems for the same terms as during the run
        self.digitcache = dict(path.digitcache)
        self.nfresh = 100000 + 1000 * getattr(self, "_analysis_round", 0)
        self._analysis_round = getattr(self, "_analysis_round", 0) + 1
        self.solver.reset()
        self.solver.set("timeout", self.feas_timeout_ms)
        for f in path.facts():
            self.solver.add(f)

    def unique_value(self, term):
        """the single value a term can take under the current (analysis) facts, else None"""
        if self.solver.check() != z3.sat:
            return None
        v = self.solver.model().eval(term, model_completion=True)
        if not z3.is_int_value(v):
            return None
        self.solver.push()
        self.solver.add(term != v)
        r = self.solver.check()
        self.solver.pop()
        return v.as_long() if r == z3.unsat else None

    def branch(self, cond):
        cond = z3.simplify(cond)
        if z3.is_true(cond):
            return True
        if z3.is_false(cond):
            return False
        if getattr(self, "frozen", False):
            raise Unsupported("branching on a symbolic condition outside exploration: %s" % str(cond)[:80])
        prev = self.decided.get(cond.get_id())
        if prev is not None:
            return prev[1]
        if self.pos < len(self.decisions):
            d = self.decisions[self.pos]
        else:
            t = self._check(cond)
            f = self._check(z3.Not(cond))
            if t and f:
                d = True
                self.decisions.append(True)
                self.pending.append(self.decisions[:-1] + [False])
            elif t or f:
                d = t
                self.decisions.append(d)
            else:
                raise Abort()
        self.pos += 1
        self.decided[cond.get_id()] = (cond, d)
        c = cond if d else z3.Not(cond)
        self.pc.append(c)
        self.solver.add(c)
        self._learn_bool(c)
        return d

    def _learn_bool(self, c):
        # Or(t == 0, t == 1) on the path => t is a 0/1 term from here on
        if z3.is_or(c) and c.num_args() == 2:
            a, b = c.children()
            if z3.is_eq(a) and z3.is_eq(b):
                for x, y in ((a, b), (b, a)):
                    xl, xr = x.children()
                    yl, yr = y.children()
                    for (t0, v0) in ((xl, xr), (xr, xl)):
                        for (t1, v1) in ((yl, yr), (yr, yl)):
                            if z3.is_int_value(v0) and z3.is_int_value(v1) and t0.get_id() == t1.get_id() \
                                    and {v0.as_long(), v1.as_long()} == {0, 1} and not z3.is_int_value(t0):
                                self.mark_bool(t0)

    def assume_now(self, cond):
        """restrict the current path (used by harnesses for stated input bounds placed before the code)"""
        if not self._check(cond):
            raise Abort()
        self.pc.append(cond)
        self.solver.add(cond)

    # ------------------------------------------------------------------ exploration
    def explore(self, fn, assume=()):
        """run fn() along every feasible path; returns list of PathResult"""
        results = []
        self.pending = [[]]
        while self.pending:
            if len(results) > self.max_paths:
                raise Unsupported("path explosion: more than %d paths" % self.max_paths)
            dec = self.pending.pop()
            self._reset_path(dec, assume)
            try:
                out = ("ok", fn())
            except Abort:
                self.stats["aborted"] += 1
                continue
            except Unsupported:
                raise
            except Exception as e:       # an exception raised by the code under analysis
                out = ("exc", e)
            self.stats["paths"] += 1
            results.append(PathResult(self, out))
        return results


def guarded_check(solver, timeout_ms):
    """solver.check().  (A watchdog thread calling ctx.interrupt() was tried and removed: merely having a second Python
    thread alive made z3 5.1 abort with internal assertion violations.  A solver call that ignores its timeout is
    instead caught by the per-job wall limit of the worker pool, which kills the worker and reports the job as
    inconclusive.)"""
    try:
        return solver.check()
    except z3.Z3Exception:
        return z3.unknown


class PathResult:
    def __init__(self, eng, out):
        self.assume = list(eng.assume)
        self.pc = list(eng.pc)
        self.ax = list(eng.axioms)
        self.out = out
        self.decisions = list(eng.decisions)
        self.prod_defs = dict(eng.prod_defs)
        self.red_defs = dict(eng.red_defs)
        self.inv_defs = dict(eng.inv_defs)
        self.bools = dict(eng.bools)
        self.prod_axiom_ids = set(eng.prod_axiom_ids)
        self.bitcache = dict(eng.bitcache)
        self.digitcache = dict(eng.digitcache)
        self.prod_index = dict(eng.prod_index)
        self.uncertain = eng.uncertain
        self.notes = list(eng.notes)

    @property
    def ok(self):
        return self.out[0] == "ok"

    @property
    def exc(self):
        return self.out[1] if self.out[0] == "exc" else None

    def facts(self, linear_only=False):
        if linear_only:
            return self.assume + self.pc + [a for a in self.ax if a.get_id() not in self.prod_axiom_ids]
        return self.assume + self.pc + self.ax


ENG = Engine()

# ---------------------------------------------------------------------- term helpers


def T(x):
    """z3 Int term of a Python/symbolic integer-like"""
    tx = type(x)
    if tx is SymInt:
        return x.t
    if tx is SymBool:
        c = z3.simplify(x.t)
        if z3.is_true(c):
            return z3.IntVal(1)
        if z3.is_false(c):
            return z3.IntVal(0)
        prev = ENG.decided.get(c.get_id())
        if prev is not None:            # already decided on this path: the conversion is a constant
            return z3.IntVal(1 if prev[1] else 0)
        return z3.If(x.t, z3.IntVal(1), z3.IntVal(0))
    if tx is bool:
        return z3.IntVal(int(x))
    if tx is int:
        return z3.IntVal(x)
    if isinstance(x, int):              # IntEnum members and other int subclasses
        return z3.IntVal(int(x))
    raise Unsupported("cannot turn %r into an integer term" % (tx,))


def is_sym(x):
    return type(x) in (SymInt, SymBool, SymReal)


def pyfloordiv(a, d):
    """Python floor division on z3 Int terms, any sign of d (d != 0)"""
    if z3.is_int_value(d):
        dv = d.as_long()
        if dv > 0:
            return a / d
        if dv < 0:
            return (-a) / z3.IntVal(-dv)
    return z3.If(d > 0, a / d, (-a) / (-d))


def pymod(a, d):
    if z3.is_int_value(d) and d.as_long() > 0:
        return a % d
    return a - pyfloordiv(a, d) * d


def bits_of(t, W=None, force=False):
    """exact binary expansion skolems: t = sum 2^i b_i + 2^W hi, b_i in {0,1} (hi any integer: two's complement)"""
    W = W if (force and W) else max(W or 0, ENG.W)
    key = (t.get_id(), W)
    ent = ENG.bitcache.get(key)
    if ent is None:
        # reuse a wider/narrower decomposition if present? keep it simple: one per (term, W)
        # skolems are named after the term they decompose, so that the same term met in another exploration of the
        # same job (guarded vs unguarded twin, reference evaluation) shares them instead of re-deriving uniqueness
        dg = hashlib.md5(t.sexpr().encode()).hexdigest()[:10]
        bs = [z3.Int("b%d_%s_%d" % (W, dg, i)) for i in range(W)]
        hi = z3.Int("bh%d_%s" % (W, dg))
        for b in bs:
            ENG.add_axiom(z3.And(b >= 0, b <= 1))
            ENG.mark_bool(b)
        horner = hi
        for b in reversed(bs):
            horner = b + 2 * horner
        ENG.add_axiom(t == horner)
        ent = (bs, hi, t)
        ENG.bitcache[key] = ent
    return ent


def digits_of(t, base_bits, ndigits):
    """exact base-2^base_bits expansion skolems (serialisers): t = sum B^j d_j + B^ndigits hi"""
    key = (t.get_id(), base_bits, ndigits)
    ent = ENG.digitcache.get(key)
    if ent is None:
        B = 1 << base_bits
        dg = hashlib.md5(t.sexpr().encode()).hexdigest()[:10]
        ds = [z3.Int("d%d_%s_%d" % (ndigits, dg, i)) for i in range(ndigits)]
        hi = z3.Int("dh%d_%s" % (ndigits, dg))
        for d in ds:
            ENG.add_axiom(z3.And(d >= 0, d < B))
        horner = hi
        for d in reversed(ds):
            horner = d + B * horner
        ENG.add_axiom(t == horner)
        ent = (ds, hi, t)
        ENG.digitcache[key] = ent
    return ent


class BitLen:
    """result of SymInt.bit_length(): only comparisons with concrete widths are supported"""

    def __init__(self, t):
        self.t = t

    def _le(self, n):
        if type(n) is not int:
            raise Unsupported("bit_length compared with non-concrete")
        if n < 0:
            return z3.BoolVal(False)
        return z3.And(self.t < (1 << n), self.t > -(1 << n))

    def __le__(self, n): return SymBool(self._le(n))
    def __gt__(self, n): return SymBool(z3.Not(self._le(n)))
    def __lt__(self, n): return SymBool(self._le(n - 1))
    def __ge__(self, n): return SymBool(z3.Not(self._le(n - 1)))
    __hash__ = None


class SymBool:
    __slots__ = ("t",)

    def __init__(self, t):
        self.t = t

    def __bool__(self):
        return ENG.branch(self.t)

    def __add__(self, o): return SymInt(T(self) + T(o))
    __radd__ = __add__
    def __sub__(self, o): return SymInt(T(self) - T(o))
    def __rsub__(self, o): return SymInt(T(o) - T(self))
    def __mul__(self, o): return SymInt(T(self)) * o
    __rmul__ = __mul__
    def __neg__(self): return SymInt(-T(self))

    def __eq__(self, o):
        if type(o) is bool:
            return SymBool(self.t if o else z3.Not(self.t))
        if type(o) is SymBool:
            return SymBool(self.t == o.t)
        return SymBool(T(self) == T(o))

    def __ne__(self, o):
        e = self.__eq__(o)
        return SymBool(z3.Not(e.t))

    def __and__(self, o):
        if type(o) is SymBool: return SymBool(z3.And(self.t, o.t))
        if type(o) is bool: return SymBool(self.t) if o else False
        return SymInt(T(self)) & o
    __rand__ = __and__

    def __or__(self, o):
        if type(o) is SymBool: return SymBool(z3.Or(self.t, o.t))
        if type(o) is bool: return True if o else SymBool(self.t)
        return SymInt(T(self)) | o
    __ror__ = __or__

    def __invert__(self):
        return SymInt(-T(self) - 1)

    def __int__(self):
        raise Unsupported("int() of SymBool at a C boundary")

    def __index__(self):
        raise Unsupported("SymBool used as an index")

    def __repr__(self):
        return "<symbool>"
    __hash__ = None


def _concrete_mask_op(s, o, kind):
    """s & o, s | o, s ^ o for a concrete non-negative mask o, via bit skolems (exact for every integer s)"""
    if type(o) is bool:
        o = int(o)
    if type(o) is not int:
        raise Unsupported("bitwise %s with a symbolic right operand" % kind)
    if o < 0:
        # two's complement identities with the non-negative mask ~o
        if kind == "and":          # s & o = s - (s & ~o)
            return s - _concrete_mask_op(s, ~o, "and")
        if kind == "or":           # s | o = ~(~s & ~o)
            return ~_as_symint(_concrete_mask_op(~s, ~o, "and"))
        return ~_as_symint(_concrete_mask_op(s, ~o, "xor"))      # s ^ o = ~(s ^ ~o)
    if o == 0:
        return 0 if kind == "and" else s
    if kind == "and" and o == 255 and s._sh is not None and s._sh[1] % 8 == 0:
        # (v >> 8j) & 255 : the j-th base-256 digit of v (serialisers); exact skolem characterisation
        j = s._sh[1] // 8
        ds, hi, _ = digits_of(s._sh[0], 8, max(32, j + 1))
        return SymInt(ds[j])
    L = o.bit_length()
    if kind == "and" and s._sh is not None and s._sh[1] + L <= 4 * ENG.W:
        # (v >> n) & mask : bits n.. of v itself (one decomposition of v serves every shift amount)
        n0 = s._sh[1]
        obs, ohi, _ = bits_of(s._sh[0], n0 + L)
        acc = z3.IntVal(0)
        for i in range(L):
            if (o >> i) & 1:
                acc = acc + (1 << i) * obs[n0 + i]
        return SymInt(z3.simplify(acc))
    bs, hi, _ = bits_of(s.t, L)
    if kind == "and":
        acc = z3.IntVal(0)
        for i in range(L):
            if (o >> i) & 1:
                acc = acc + (1 << i) * bs[i]
        r = SymInt(z3.simplify(acc))
        if o & (o - 1) == 0:
            r._bit = (L - 1, bs[L - 1])
        return r
    # or / xor: result = s + sum over mask bits of the per-bit change
    acc = s.t
    for i in range(L):
        if (o >> i) & 1:
            if kind == "or":       # bit becomes 1: add 2^i (1-b)
                acc = acc + (1 << i) * (1 - bs[i])
            else:                  # xor: bit flips: add 2^i (1-2b)
                acc = acc + (1 << i) * (1 - 2 * bs[i])
    return SymInt(acc)


MAX_SPLIT = 64


def _split_small(e, f, what):
    """f(e) for a symbolic small non-negative integer e by forking on its value (reference semantics only)"""
    e = _as_symint(e)
    if getattr(ENG, "frozen", False):
        k = ENG.unique_value(e.t)
        if k is None:
            raise Unsupported("symbolic %s is not determined by the path" % what)
        if k < 0:
            raise ValueError("negative %s" % what)
        if k > 4 * MAX_SPLIT:
            raise Unsupported("symbolic %s above %d" % (what, 4 * MAX_SPLIT))
        return f(k)
    if e < 0:
        raise ValueError("negative %s" % what)
    for k in range(MAX_SPLIT + 1):
        if e == k:
            return f(k)
    # beyond the case split: this region of the input space is cut (stated bound), the path is abandoned
    ENG.stats["cut_large_" + what.replace(" ", "_")] = ENG.stats.get("cut_large_" + what.replace(" ", "_"), 0) + 1
    raise Abort()


def _as_symint(x):
    return x if type(x) is SymInt else SymInt(T(x))


class SymInt:
    __slots__ = ("t", "_bit", "_sh")

    def __init__(self, t):
        self.t = t
        self._bit = None
        self._sh = None          # (original term, shift count) when this value is `orig >> count`

    # arithmetic
    def _real(s):
        return SymReal(z3.ToReal(s.t))

    def __add__(s, o):
        if type(o) is SymReal: return NotImplemented
        if type(o) is float: return s._real() + o
        return SymInt(s.t + T(o))
    __radd__ = __add__
    def __sub__(s, o):
        if type(o) is SymReal: return NotImplemented
        if type(o) is float: return s._real() - o
        return SymInt(s.t - T(o))
    def __rsub__(s, o):
        if type(o) is float: return o - s._real()
        return SymInt(T(o) - s.t)
    def to_bytes(s, length, byteorder="big", *, signed=False):
        """int.to_bytes on a symbolic integer: OverflowError outside the range (forks), else the base-256 digits"""
        if signed:
            raise Unsupported("to_bytes(signed=True)")
        if s < 0:
            raise OverflowError("can't convert negative int to unsigned")
        if s >= (1 << (8 * length)):
            raise OverflowError("int too big to convert")
        ds, hi, _ = digits_of(s.t, 8, length)
        ENG.add_axiom(hi == 0)
        out = [SymInt(d) for d in ds]
        return out if byteorder == "little" else out[::-1]

    def __neg__(s): return SymInt(-s.t)
    def __pos__(s): return s
    def __abs__(s): return SymInt(z3.If(s.t >= 0, s.t, -s.t))

    def __mul__(s, o):
        if type(o) is SymReal: return NotImplemented
        if type(o) is float: return s._real() * o
        if type(o) in (SymInt, SymBool):
            ot = T(o)
            if z3.is_int_value(z3.simplify(ot)) or z3.is_int_value(z3.simplify(s.t)):
                return SymInt(s.t * ot)
            return SymInt(named_product(s.t, ot))
        return SymInt(s.t * T(o))
    __rmul__ = __mul__

    def __floordiv__(s, o):
        return SymInt(pyfloordiv(s.t, T(o)))
    def __rfloordiv__(s, o): return SymInt(pyfloordiv(T(o), s.t))

    def __mod__(s, o):
        if type(o) is int and ENG.modulus is not None and o == ENG.modulus:
            return SymInt(named_reduction(s.t, o))
        return SymInt(pymod(s.t, T(o)))
    def __rmod__(s, o): return SymInt(pymod(T(o), s.t))

    def __divmod__(s, o):
        return (s // o, s % o)
    def __rdivmod__(s, o):
        return (SymInt(T(o)) // s, SymInt(T(o)) % s)

    def __truediv__(s, o):
        if type(o) is int and o > 0 and o & (o - 1) == 0:
            return SymReal(z3.ToReal(s.t) / z3.RealVal(o))
        if type(o) is SymReal:
            return NotImplemented
        raise Unsupported("true division of symbolic integers")

    def __pow__(s, e, m=None):
        if m is None and type(e) in (SymInt, SymBool):
            return _split_small(e, lambda k: s ** k, "exponent")
        if m is None:
            if type(e) is int and 0 <= e <= 4 * MAX_SPLIT:
                r = 1
                for _ in range(e):
                    r = s * r
                return r
            raise Unsupported("symbolic ** beyond small concrete exponents")
        if type(e) is int and type(m) is int and e == m - 2:
            return SymInt(named_inverse(s.t, m))
        if type(m) is int and type(e) in (SymInt, SymBool):
            return _split_small(e, lambda k: (s ** k) % m if k > 0 else 1 % m, "exponent")
        if type(m) is int and type(e) is int and 0 <= e <= 4 * MAX_SPLIT:
            return (s ** e) % m if e > 0 else 1 % m
        raise Unsupported("modular exponentiation other than x**(m-2) mod m or a small exponent")

    # comparisons
    def __eq__(s, o):
        if type(o) is SymReal: return NotImplemented
        if o is None or type(o) not in (int, bool, SymInt, SymBool): return False
        return SymBool(s.t == T(o))
    def __ne__(s, o):
        if type(o) is SymReal: return NotImplemented
        if o is None or type(o) not in (int, bool, SymInt, SymBool): return True
        return SymBool(s.t != T(o))
    def __lt__(s, o):
        if type(o) is SymReal: return NotImplemented
        return SymBool(s.t < T(o))
    def __le__(s, o):
        if type(o) is SymReal: return NotImplemented
        return SymBool(s.t <= T(o))
    def __gt__(s, o):
        if type(o) is SymReal: return NotImplemented
        return SymBool(s.t > T(o))
    def __ge__(s, o):
        if type(o) is SymReal: return NotImplemented
        return SymBool(s.t >= T(o))
    def __hash__(s):
        """a symbolic integer used as a dictionary key / set member (memo tables keyed by a value): the value is made
        concrete on this path by forking over a small range; beyond it the path is cut (counted in the statistics)"""
        if getattr(ENG, "frozen", False):
            k = ENG.unique_value(s.t)
            if k is None:
                raise Unsupported("hash() of a SymInt that is not determined by the path")
            return hash(k)
        for k in (0, 1, 2, 3, -1, 4, -2, 5, 6, 7, 8, -3, -4):      # stated bound: hashed symbolic integers in [-4, 8]
            if s == k:
                return hash(k)
        ENG.stats["cut_large_hash"] = ENG.stats.get("cut_large_hash", 0) + 1
        raise Abort()

    def __bool__(s):
        return ENG.branch(s.t != 0)

    def bit_length(s):
        return BitLen(s.t)

    # bitwise with concrete masks / counts
    def __and__(s, o):
        if type(o) in (SymInt, SymBool):
            return sym_bitop(s, o, "and")
        return _concrete_mask_op(s, o, "and")
    __rand__ = __and__
    def __or__(s, o):
        if type(o) in (SymInt, SymBool):
            return sym_bitop(s, o, "or")
        return _concrete_mask_op(s, o, "or")
    __ror__ = __or__
    def __xor__(s, o):
        if type(o) in (SymInt, SymBool):
            return sym_bitop(s, o, "xor")
        return _concrete_mask_op(s, o, "xor")
    __rxor__ = __xor__
    def __invert__(s): return SymInt(-s.t - 1)

    def __rpow__(s, base):
        return _split_small(s, lambda k: base ** k, "exponent")

    def __rshift__(s, n):
        if type(n) in (SymInt, SymBool):
            return _split_small(n, lambda k: s >> k, "shift count")
        if type(n) is not int:
            raise Unsupported(">> by a symbolic count on plain integers")
        if n < 0:
            raise ValueError("negative shift count")
        if s._bit is not None and s._bit[0] == n:
            return SymInt(s._bit[1])
        if n == 0:
            r = SymInt(s.t)
            r._sh = (s.t, 0)
            return r
        r = SymInt(s.t / z3.IntVal(1 << n))
        r._sh = (s.t, n)
        return r

    def __lshift__(s, n):
        if type(n) in (SymInt, SymBool):
            return _split_small(n, lambda k: s << k, "shift count")
        if type(n) is not int:
            raise Unsupported("<< by a symbolic count on plain integers")
        if n < 0:
            raise ValueError("negative shift count")
        return SymInt(s.t * (1 << n))

    def __rlshift__(s, o):
        return _split_small(s, lambda k: o << k, "shift count")

    def __rrshift__(s, o):
        return _split_small(s, lambda k: o >> k, "shift count")

    def __int__(s):
        raise Unsupported("int() of SymInt at a C boundary")

    def __index__(s):
        raise Unsupported("SymInt used as an index / range bound / shift count")

    def __float__(s):
        raise Unsupported("float() of SymInt at a C boundary")

    def __deepcopy__(s, memo):
        return s

    def __copy__(s):
        return s

    def __repr__(s):
        return "<sym:%s>" % (str(z3.simplify(s.t))[:60],)

    def __str__(s):
        if getattr(ENG, "tokenize_str", False):
            # text-file backends: render as a token that the reader maps back to the term
            ENG.tokens.append(s.t)
            return "<<S%d>>" % (len(ENG.tokens) - 1)
        return repr(s)

    def __format__(s, spec):
        return repr(s)


def _defer_foreign_operands(cls):
    """like int: a binary operator whose other operand is an object of a foreign class (a LinComb, an Array, ...) answers
    NotImplemented, so that Python tries the other operand's reflected method"""
    import functools
    own = (int, bool, float)
    names = ["add", "sub", "mul", "floordiv", "mod", "divmod", "truediv", "pow", "lshift", "rshift", "and", "or", "xor"]
    for nm in names:
        for pre in ("__", "__r"):
            meth = cls.__dict__.get(pre + nm + "__")
            if meth is None:
                continue

            def wrap(meth):
                @functools.wraps(meth)
                def f(s, o, *rest):
                    to = type(o)
                    if to not in own and to not in (SymInt, SymBool, SymReal):
                        if isinstance(o, int):          # IntEnum members, int subclasses: their integer value
                            o = int(o)
                        elif isinstance(o, float):
                            o = float(o)
                        else:
                            return NotImplemented
                    return meth(s, o, *rest)
                return f
            setattr(cls, pre + nm + "__", wrap(meth))
    return cls


_defer_foreign_operands(SymInt)


def sym_bitop(a, b, kind, W=None):
    """a OP b for two symbolic integers, defined on the low W bits of both (exact when both fit W bits, >=0);
    the high parts are combined only when both are zero, otherwise Unsupported is avoided by an axiom-free
    formula: result = sum 2^i f(a_i,b_i) + 2^W * fhi where fhi is left to exact two's complement reasoning for the
    cases hi in {0,-1}."""
    at = a.t if type(a) is SymInt else T(a)
    bt = b.t if type(b) is SymInt else T(b)
    force = False
    if W is None:
        # smallest width both operands provably fit in (keeps the uniqueness-of-expansion reasoning small)
        for w in (1, 2, 4, 8, 16):
            fit = z3.And(at >= 0, at < (1 << w), bt >= 0, bt < (1 << w))
            ENG.solver.push()
            ENG.solver.add(z3.Not(fit))
            r = ENG.solver.check()
            ENG.solver.pop()
            if r == z3.unsat:
                W, force = w, True
                break
    W = W or ENG.W
    # reuse the decompositions the run itself made of these terms (same skolems: nothing to re-derive), and state the
    # valid fact that digits above the fitted width vanish
    def decomposition(t):
        for (tid, w0), ent in ENG.bitcache.items():
            if tid == t.get_id() and w0 >= W:
                if force:
                    ENG.add_axiom(z3.Implies(z3.And(t >= 0, t < (1 << W)), z3.And([ent[1] == 0] + [b == 0 for b in ent[0][W:]])))
                return ent[0], ent[1], w0
        bs, hi, _ = bits_of(t, W, force)
        return bs, hi, W
    ba, ha, wa = decomposition(at)
    bb, hb, wb = decomposition(bt)
    if wa != wb or wa != W:
        # different widths: work on the common low part W and treat the rest through the (zero) high parts
        if force:
            ha = z3.IntVal(0)
            hb = z3.IntVal(0)
        else:
            ba, ha, _ = bits_of(at, W, force)
            bb, hb, _ = bits_of(bt, W, force)
    acc = None
    for i in reversed(range(W)):
        x, y = ba[i], bb[i]
        # x*y with x,y in {0,1}: If(x==1, y, 0) keeps it linear (and is shared with products the run itself formed)
        xy = named_product(x, y)
        bit = xy if kind == "and" else (x + y - xy if kind == "or" else x + y - 2 * xy)
        acc = bit if acc is None else bit + 2 * acc
    # high part: only the sign-extension cases are modelled exactly
    def hop(x, y):
        # x,y in {0,-1} behave like booleans (all zeros / all ones)
        if kind == "and":
            return z3.If(z3.And(x == -1, y == -1), z3.IntVal(-1), z3.IntVal(0))
        if kind == "or":
            return z3.If(z3.Or(x == -1, y == -1), z3.IntVal(-1), z3.IntVal(0))
        return z3.If(x == y, z3.IntVal(0), z3.IntVal(-1))
    ENG.assume_now(z3.And(z3.Or(ha == 0, ha == -1), z3.Or(hb == 0, hb == -1)))
    ENG.notes.append("sym_bitop restricted to |operands| < 2^%d" % W)
    return SymInt(acc + (1 << W) * hop(ha, hb))


class SymReal:
    """exact rational stand-in for the floats of the fixed-point code (see DESIGN C14 for the stated bound)"""
    __slots__ = ("t",)

    def __init__(self, t):
        self.t = t

    @staticmethod
    def R(x):
        tx = type(x)
        if tx is SymReal: return x.t
        if tx in (SymInt, SymBool): return z3.ToReal(T(x))
        if tx in (int, bool): return z3.RealVal(int(x))
        if tx is float:
            n, d = x.as_integer_ratio()
            return z3.RealVal(n) / z3.RealVal(d)
        raise Unsupported("cannot turn %r into a real term" % (tx,))

    def __add__(s, o): return SymReal(s.t + SymReal.R(o))
    __radd__ = __add__
    def __sub__(s, o): return SymReal(s.t - SymReal.R(o))
    def __rsub__(s, o): return SymReal(SymReal.R(o) - s.t)
    def __mul__(s, o): return SymReal(s.t * SymReal.R(o))
    __rmul__ = __mul__
    def __neg__(s): return SymReal(-s.t)
    def __truediv__(s, o):
        if type(o) is int and o != 0:
            return SymReal(s.t / z3.RealVal(o))
        raise Unsupported("real division by non-constant")
    def __eq__(s, o): return SymBool(s.t == SymReal.R(o))
    def __ne__(s, o): return SymBool(s.t != SymReal.R(o))
    def __lt__(s, o): return SymBool(s.t < SymReal.R(o))
    def __le__(s, o): return SymBool(s.t <= SymReal.R(o))
    def __gt__(s, o): return SymBool(s.t > SymReal.R(o))
    def __ge__(s, o): return SymBool(s.t >= SymReal.R(o))
    __hash__ = None
    def trunc(s):
        return SymInt(z3.If(s.t >= 0, z3.ToInt(s.t), -z3.ToInt(-s.t)))
    def __float__(s):
        raise Unsupported("float() of SymReal at a C boundary")
    def __repr__(s):
        return "<symreal:%s>" % (str(z3.simplify(s.t))[:60],)
    __str__ = __repr__


# ---------------------------------------------------------------------- named sub-terms

def named_product(a, b):
    # a 0/1 factor keeps the product linear for the solver: If(a = 1, b, 0); the polynomial normaliser still sees
    # the product through prod_defs (keyed by the id of the If term)
    ik = tuple(sorted((a.get_id(), b.get_id())))
    hit = ENG.prod_index.get(ik)
    if hit is not None:
        return hit
    for u, v in ((a, b), (b, a)):
        if ENG.is_bool(u):
            m = z3.If(u == 1, v, z3.IntVal(0))
            ENG.prod_defs[m.get_id()] = (m, u, v)
            if ENG.is_bool(v):
                ENG.mark_bool(m)
            ENG.prod_index[ik] = m
            return m
    m = ENG.fresh("m")
    ENG.prod_index[ik] = m
    ENG.prod_defs[m.get_id()] = (m, a, b)
    ax = (m == a * b)
    ENG.prod_axiom_ids.add(ax.get_id())
    # the exact (nonlinear) definition goes into the path facts; the feasibility solver only gets linear consequences
    # (sign, zero, magnitude), which keeps branching decisions in linear arithmetic.  Unknown never prunes a path.
    ENG.add_axiom(ax, to_solver=False)
    ENG.add_lemma((m == 0) == z3.Or(a == 0, b == 0))
    ENG.add_lemma(z3.Implies(z3.And(a > 0, b > 0), z3.And(m >= a, m >= b)))
    ENG.add_lemma(z3.Implies(z3.And(a < 0, b < 0), z3.And(m >= -a, m >= -b)))
    ENG.add_lemma(z3.Implies(z3.And(a > 0, b < 0), z3.And(m <= -a, m <= b)))
    ENG.add_lemma(z3.Implies(z3.And(a < 0, b > 0), z3.And(m <= a, m <= -b)))
    if a.get_id() == b.get_id():
        ENG.add_lemma(m >= 0)
    return m


def named_reduction(t, p):
    st = z3.simplify(t)
    if z3.is_int_value(st):
        return z3.IntVal(st.as_long() % p)
    q = ENG.fresh("q")
    r = ENG.fresh("r")
    ENG.red_defs[r.get_id()] = (r, t, p)
    ENG.add_axiom(z3.And(t == q * p + r, r >= 0, r < p))
    return r


def named_inverse(x, p):
    """x**(p-2) mod p for prime p (Fermat): 0 if x = 0 mod p, else the unique r in [1,p) with x r = 1 mod p"""
    sx = z3.simplify(x)
    if z3.is_int_value(sx):
        return z3.IntVal(builtins.pow(sx.as_long(), p - 2, p))
    # r = inverse hint, u stands for the product x*r (recorded in prod_defs so that the normaliser and the
    # constraint evaluator can recognise it); only LINEAR consequences of Fermat are asserted:
    #   x = 0 (mod p)  ->  r = 0, u = 0          x != 0 (mod p)  ->  1 <= r < p, u = 1 (mod p)
    # the value of r itself is left open (sound over-approximation; its exact value is CPython's pow, outside the claim)
    r = ENG.fresh("inv")
    u = ENG.fresh("xinv")
    ENG.inv_defs[r.get_id()] = (r, x, p)
    ENG.inv_defs[u.get_id()] = (u, x, p)
    ENG.prod_defs[u.get_id()] = (u, x, r)
    ENG.prod_index[tuple(sorted((x.get_id(), r.get_id())))] = u
    ENG.add_axiom(z3.And(r >= 0, r < p))
    ENG.add_axiom(z3.If(x % p == 0, z3.And(r == 0, u == 0), z3.And(r >= 1, u % p == 1)))
    return r


# ---------------------------------------------------------------------- names injected into pysnark modules

def _norm_cls(c):
    if c is sym_int: return int
    if c is sym_float: return float
    return c


def sym_isinstance(o, cls):
    if type(cls) is tuple:
        cls = tuple(_norm_cls(c) for c in cls)
    else:
        cls = _norm_cls(cls)
    to = type(o)
    if to is SymInt:
        return cls is int or (type(cls) is tuple and int in cls) or cls is object
    if to is SymBool:
        return cls in (int, bool) or (type(cls) is tuple and (int in cls or bool in cls))
    if to is SymReal:
        return cls is float or (type(cls) is tuple and float in cls)
    return builtins.isinstance(o, cls)


class _SymIntMeta(type):
    def __instancecheck__(cls, o):
        return sym_isinstance(o, int)


class sym_int(metaclass=_SymIntMeta):
    """stand-in for the name `int` inside pysnark modules"""
    def __new__(cls, x=0, *a):
        tx = type(x)
        if tx is SymInt: return x
        if tx is SymBool: return SymInt(T(x))
        if tx is SymReal: return x.trunc()
        return builtins.int(x, *a)


class _SymFloatMeta(type):
    def __instancecheck__(cls, o):
        return sym_isinstance(o, float)


class sym_float(metaclass=_SymFloatMeta):
    def __new__(cls, x=0.0):
        tx = type(x)
        if tx is SymReal: return x
        if tx in (SymInt, SymBool): return SymReal(z3.ToReal(T(x)))
        return builtins.float(x)


def sym_pow(x, e, m=None):
    if type(x) is SymInt:
        return x.__pow__(e, m)
    if type(e) in (SymInt, SymBool) and type(x) is int:
        if m is None:
            return e.__rpow__(x)
        return _split_small(e, lambda k: builtins.pow(x, k, m), "exponent")
    if m is None:
        return builtins.pow(x, e)
    return builtins.pow(x, e, m)


def sym_divmod(a, b):
    if is_sym(a) or is_sym(b):
        return (a // b, a % b)
    return builtins.divmod(a, b)


def sym_abs(x):
    if type(x) is SymInt:
        return x.__abs__()
    return builtins.abs(x)


INJECT = dict(isinstance=sym_isinstance, int=sym_int, float=sym_float, pow=sym_pow, divmod=sym_divmod)


def inject(*mods, **extra):
    for m in mods:
        for k, v in INJECT.items():
            setattr(m, k, v)
        for k, v in extra.items():
            setattr(m, k, v)


def X(name):
    return SymInt(z3.Int(name))
