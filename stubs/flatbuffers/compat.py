def import_numpy():
    return None
