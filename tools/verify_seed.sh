#!/bin/sh
# usage: tools/verify_seed.sh <seed dir with patch.diff demo.py meta.json>
# confirms in a fresh scratch worktree of /repo HEAD: patch applies, suite passes with it, demo FAILS with it and PASSES without
S="$1"
W=$(mktemp -d /tmp/sv.XXXXXX)
git -C /repo worktree add --detach "$W" HEAD >/dev/null 2>&1 || { echo "cannot create worktree"; exit 9; }
cd "$W"
mkdir -p seedx && cp "$S/demo.py" seedx/demo.py
base=$(PYTHONPATH=$W timeout 300 /venv/bin/python seedx/demo.py >/tmp/sv_base.out 2>&1; echo $?)
if git apply --check "$S/patch.diff" 2>/dev/null; then
  git apply "$S/patch.diff"
  tests=$(PYTHONPATH=$W timeout 600 /venv/bin/python -m pytest -q -p no:cacheprovider 2>&1 | grep -E 'passed|failed' | tail -1)
  withp=$(PYTHONPATH=$W timeout 300 /venv/bin/python seedx/demo.py >/tmp/sv_patch.out 2>&1; echo $?)
  echo "applies=yes demo_without=$base demo_with=$withp tests='$tests'"
else
  echo "applies=NO demo_without=$base"
fi
cd /; git -C /repo worktree remove --force "$W" >/dev/null 2>&1; rm -rf "$W"
