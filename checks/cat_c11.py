"""C11 harnesses: real zkinterface prove() against the recording flatbuffers stand-in; an independent reader walks the
recorded tree by the slot numbers of zkinterface.fbs (parsed from /repo on every run)."""
import os
import re
from .catalogue import Entry
from .cat_c10 import PROGRAMS


def parse_fbs(path):
    """table name -> {field name: slot}; a union-typed field occupies two slots (<name>_type, <name>)"""
    src = open(path).read()
    src = re.sub(r"//[^\n]*", "", src)
    unions = {m.group(1): [x.strip() for x in m.group(2).split(",") if x.strip()]
              for m in re.finditer(r"union\s+(\w+)\s*\{([^}]*)\}", src)}
    tables = {}
    for m in re.finditer(r"table\s+(\w+)\s*\{([^}]*)\}", src):
        slots, i = {}, 0
        for f in m.group(2).split(";"):
            f = f.strip()
            if not f:
                continue
            nm, tp = [x.strip() for x in f.split(":", 1)]
            if tp in unions:
                slots[nm + "_type"] = i
                i += 1
            slots[nm] = i
            i += 1
        tables[m.group(1)] = slots
    return tables, unions


def slot(tab, tables, tname, fname, kind=None):
    s = tables[tname][fname]
    v = tab.slots.get(s)
    if v is None:
        return None
    if kind is not None and v[0] != kind:
        raise ValueError("%s.%s stored as %s, expected %s" % (tname, fname, v[0], kind))
    return v[1]


def vec_items(v, kind, elem_size):
    if v is None:
        return []
    if v.elem_size != elem_size or v.num * 1 != len(v.items) or any(k != kind for k, _ in v.items):
        raise ValueError("vector declared %d x %d holds %d items of kinds %s" % (v.elem_size, v.num, len(v.items),
                                                                              sorted({k for k, _ in v.items})))
    return [x for _, x in v.items]


def felts(bytes_, BL):
    if len(bytes_) % BL:
        raise ValueError("value vector length %d is not a multiple of %d" % (len(bytes_), BL))
    out = []
    for i in range(0, len(bytes_), BL):
        v = 0
        for j, b in enumerate(bytes_[i:i + BL]):
            v = v + b * (1 << (8 * j))
        out.append(v)
    return out


def read_variables(tab, tables, BL):
    ids = vec_items(slot(tab, tables, "Variables", "variable_ids", "offset"), "u64", 8)
    raw = vec_items(slot(tab, tables, "Variables", "values", "offset"), "u8", 1)
    return ids, felts(raw, BL), raw


def run_zkif(k, prog):
    env = k.env
    be = env.rec                       # pysnark.zkinterface.backend (the derived modules re-export it)
    P = env.be.get_modulus()
    BL = (P.bit_length() + 7) // 8
    tables, unions = parse_fbs(os.path.join(os.path.dirname(be.__file__), "zkinterface.fbs"))
    MT = {nm: i + 1 for i, nm in enumerate(unions["Message"])}          # union tags start at 1
    prog(k)
    pub, priv = list(be.pubvals), list(be.privvals)
    cons = [[dict(c[0].lc), dict(c[1].lc), dict(c[2].lc)] for c in be.constraints]
    env.be.prove()
    obs = []
    files = env.files
    okf = sorted(files) == ["circuit.zkif", "computation.zkif"] and all(len(v) == 1 and v[0].closed for v in files.values())
    obs.append(("both files written exactly once and closed", okf))
    if not okf:
        return obs
    n, m = len(pub), len(priv)

    def messages(name):
        out = []
        for ch in files[name][0].chunks:
            if type(ch).__name__ != "Message":
                raise ValueError("%s: a chunk that is not a finished flatbuffer message was written" % name)
            root = ch.root
            out.append((ch.size_prefixed, slot(root, tables, "Root", "message_type", "u8"),
                        slot(root, tables, "Root", "message", "offset")))
        return out

    def check_header(tag, tab):
        iv = slot(tab, tables, "CircuitHeader", "instance_variables", "offset")
        ids, vals, raw = read_variables(iv, tables, BL)
        decoded["instance"] = dict(zip(ids, vals))
        obs.append(("%s header: instance variable ids are 1..n" % tag, ids == list(range(1, n + 1))))
        obs.append(("%s header: one value per instance variable" % tag, len(vals) == n))
        for i, (dec, v) in enumerate(zip(vals, pub)):
            obs.append(("%s header: instance value %d decodes to the public value mod p" % (tag, i), ("eq", dec, v % P)))
            obs.append(("%s header: instance value %d canonical" % (tag, i), dec < P))
        obs.append(("%s header: free_variable_id = n+m+1" % tag,
                    slot(tab, tables, "CircuitHeader", "free_variable_id", "u64") == n + m + 1))
        fm = vec_items(slot(tab, tables, "CircuitHeader", "field_maximum", "offset"), "u8", 1)
        obs.append(("%s header: field_maximum = p-1 (little endian, %d bytes)" % (tag, BL),
                    len(fm) == BL and all(type(b) is int for b in fm) and felts(fm, BL) == [P - 1]))
        return raw

    decoded = {}

    def check_constraints(tag, tab):
        cv = vec_items(slot(tab, tables, "ConstraintSystem", "constraints", "offset"), "offset", 4)
        decoded[tag] = []
        obs.append(("%s constraints: count" % tag, len(cv) == len(cons)))
        symbolic_leaf = False
        for ci, (ct, tr) in enumerate(zip(cv, cons)):
            for li, fname in enumerate(("linear_combination_a", "linear_combination_b", "linear_combination_c")):
                ids, vals, raw = read_variables(slot(ct, tables, "BilinearConstraint", fname, "offset"), tables, BL)
                want = {}
                for kk, c in tr[li].items():
                    want[kk if kk >= 0 else n - kk] = c
                obs.append(("%s constraint %d %s: variable ids = traced wires (one=0 | public 1..n | private n+1..)" % (
                    tag, ci, fname[-1]), sorted(ids) == sorted(want) and len(ids) == len(want) and len(vals) == len(ids)))
                for w, cf in zip(ids, vals):
                    if w in want:
                        obs.append(("%s constraint %d %s coefficient of variable %d" % (tag, ci, fname[-1], w), ("eq", cf, want[w] % P)))
                        obs.append(("%s constraint %d %s coefficient of variable %d canonical" % (tag, ci, fname[-1], w), cf < P))
                symbolic_leaf = symbolic_leaf or any(type(b) is not int for b in raw)
                decoded[tag].append((ci, list(zip(ids, vals))))
        return symbolic_leaf

    def check_witness(tag, tab):
        av = slot(tab, tables, "Witness", "assigned_variables", "offset")
        ids, vals, raw = read_variables(av, tables, BL)
        decoded["witness"] = dict(zip(ids, vals))
        obs.append(("%s witness: assigns exactly the private variables n+1..n+m" % tag, ids == list(range(n + 1, n + m + 1))))
        obs.append(("%s witness: one value per private variable" % tag, len(vals) == m))
        for i, (dec, v) in enumerate(zip(vals, priv)):
            obs.append(("%s witness: value %d decodes to the private value mod p" % (tag, i), ("eq", dec, v % P)))
            obs.append(("%s witness: value %d canonical" % (tag, i), dec < P))

    try:
        comp = messages("computation.zkif")
        circ = messages("circuit.zkif")
        obs.append(("every message is size-prefixed", all(sp for sp, _, _ in comp + circ)))
        obs.append(("computation.zkif = header, witness, constraints",
                    sorted(t for _, t, _ in comp) == sorted([MT["CircuitHeader"], MT["Witness"], MT["ConstraintSystem"]])
                    and comp[0][1] == MT["CircuitHeader"]))
        obs.append(("circuit.zkif = header, constraints and NO witness message",
                    [t for _, t, _ in circ] == [MT["CircuitHeader"], MT["ConstraintSystem"]]))
        for tag, msgs in (("computation", comp), ("circuit", circ)):
            for sp, t, tab in msgs:
                if t == MT["CircuitHeader"]:
                    check_header(tag, tab)
                elif t == MT["ConstraintSystem"]:
                    sym = check_constraints(tag, tab)
                    if tag == "circuit":
                        obs.append(("circuit.zkif: nothing in the constraint message depends on a run-time value", not sym))
                elif t == MT["Witness"]:
                    check_witness(tag, tab)
        # the decoded assignment satisfies the decoded constraints (stated on concrete runs only: translator validation,
        # evaluation points, replay -- the products of decoded elements are non-linear for the solver)
        assign = {0: 1}
        assign.update(decoded.get("instance", {}))
        assign.update(decoded.get("witness", {}))
        if all(type(v) is int for v in assign.values()) and "computation" in decoded:
            lcs = {}
            for ci, terms in decoded["computation"]:
                lcs.setdefault(ci, []).append(terms)
            for ci, parts in lcs.items():
                if len(parts) == 3 and all(w in assign for part in parts for w, _ in part):
                    a, b, c = [sum(cf * assign[w] for w, cf in part) for part in parts]
                    obs.append(("decoded assignment satisfies decoded constraint %d" % ci, ("cong", a * b, c)))
    except (ValueError, KeyError, AttributeError) as ex:
        obs.append(("recorded tree is well formed (%s: %s)" % (type(ex).__name__, ex), False))
    return obs


def build(n=4, tier="quick"):
    ents = []
    for nm, (prog, ins) in PROGRAMS.items():
        ents.append(Entry("zkif_" + nm, (lambda k, prog=prog: run_zkif(k, prog)), ins, tags={"c11"},
                          may_raise=(ValueError, AssertionError)))
    return ents


def by_name(n=4, tier="thorough"):
    return {e.name: e for e in build(n, tier)}
