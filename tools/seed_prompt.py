#!/usr/bin/env python3
"""Print the prompt handed to a fresh sub-agent that is asked to seed a property-breaking change.
Only the property text and the path of its private scratch worktree go in; nothing from /verif."""
import json, sys

def prompt(pid, wt, n=2):
    props = {json.loads(l)["id"]: json.loads(l) for l in open("/verif/properties.jsonl")}
    p = props[pid]
    return f"""You are helping to test a verification effort for the Python library meilof/pysnark (a library that traces
integer/boolean/fixed-point arithmetic into R1CS constraint systems for zk-SNARK backends).

You have your own private scratch git worktree of the repository at {wt} (work ONLY there; never touch /repo or /verif,
and do not read anything under /verif). The library's test suite is run with:
    cd {wt} && PYTHONPATH={wt} /venv/bin/python -m pytest -q -p no:cacheprovider
(75 tests pass, 6 skipped, on the unchanged tree; there is no network and nothing can be installed).
The backend auto-detected in this sandbox is snarkjs (pysnark/snarkjsbackend.py), which simply records public values,
private values and constraints in module-level lists; flatbuffers, libsnark and the qaptools binaries are NOT installed.

Here is a semantic property the library is supposed to satisfy:

  id: {p['id']} — {p['title']}
  statement: {p['statement']}
  quantified over: {p['quantifier']['text']}
  code it is anchored in: {', '.join(p['anchors']['files'])}

TASK: produce {n} different, independent, realistic source changes ("seeded bugs") to the library under {wt}/pysnark that each
BREAK this property while the code still imports/compiles and the existing test suite STILL PASSES (75 passed) with the change.
Think of plausible regressions a maintainer could introduce in a refactor or an "optimisation" (an off-by-one, a swapped operand,
a wrong hint value, a dropped or weakened constraint, a state that is not restored, a wrong index, a missed reduction, ...).
Prefer changes that need something SPECIFIC to manifest — a particular multi-step sequence of operations, an unusual or boundary
input (negative, zero, at the bit-length boundary, a value only reachable under a false guard, ...), a particular configuration,
or two cooperating sites that each look fine alone — NOT changes that any ordinary use would expose at once. The change must
violate the property as stated above, not merely change behaviour; keep each change small (a few lines).

For EACH change deliver, in the directory {wt}/seed_<k>/ (k = 1..{n}):
  - patch.diff   : output of `git -C {wt} diff` for that change alone, relative to the unchanged HEAD (so that `git apply patch.diff`
                   in a clean checkout reproduces it). Produce each patch from a clean tree: after saving a patch run
                   `git -C {wt} checkout -- pysnark` before starting the next one.
  - demo.py      : a small stand-alone program, run as `cd <checkout> && PYTHONPATH=<checkout> /venv/bin/python seed_<k>/demo.py`
                   (it may take the checkout from the current directory), that exits with status 0 and prints PASS on the
                   UNCHANGED code and exits with non-zero status and prints FAIL (with a short explanation) once the patch is
                   applied. It should demonstrate the property violation concretely (e.g. evaluate the recorded constraints on the
                   recorded witness modulo the field prime, exhibit a second satisfying witness, compare two traces, decode a
                   written file, ...), not just compare against hard-coded numbers. Set `pysnark.runtime.autoprove = False`
                   or otherwise avoid leaving files around unless the files are the point.
  - meta.json    : {{"property": "{p['id']}", "summary": "<what was changed>", "needs": "<what specific input/sequence/config it needs to manifest>",
                    "files": ["<changed files>"], "tests_pass_with_patch": true}}
You must confirm yourself, before finishing, that for each change: (1) the full test suite passes with the patch applied
(75 passed), (2) demo.py FAILS with the patch and PASSES without it. Leave the worktree clean (no modified tracked files) at the
end; the seed_<k>/ directories are untracked and stay. Note: if the unchanged library already violates the property in some
corner you happen to find, do not use that corner — your demo must PASS on the unchanged code.

In your final answer list, per change, the one-line summary and what it needs to manifest."""

if __name__ == "__main__":
    print(prompt(sys.argv[1], sys.argv[2], int(sys.argv[3]) if len(sys.argv) > 3 else 2))
