"""z3-free half of the harness layer: shared by the engine side and by replay under /venv/bin/python."""
import builtins

from . import env as ENV


# ------------------------------------------------------------------------------------------ kit handed to entries

class Kit:
    """what a catalogue entry sees: constructors for secret values from named inputs + the pysnark modules.
    The same class serves symbolic runs (vals are SymInt) and concrete runs/replays (vals are int)."""

    def __init__(self, env, vals, n, r):
        self.env = env
        self.vals = vals
        self.n = n
        self.r = r
        self.rt, self.bo, self.fx, self.br, self.ar, self.pk, self.la = env.rt, env.bo, env.fx, env.br, env.ar, env.pk, env.la
        self.P = env.P
        self.operands = []      # [(name, ('priv'|'pub', index))] wires created for the harness inputs, in order

    def _next(self, kind):
        rec = self.env.rec
        if not hasattr(rec, "privvals"):
            return 0               # file-based backend: no in-memory recorder
        return len(rec.privvals) if kind == "priv" else len(rec.pubvals)

    def _rec(self, nm, kind, idx=None):
        if idx is None:
            idx = self._next(kind) - 1
        self.operands.append((nm, (kind, idx)))

    def v(self, nm): return self.vals[nm]

    # the input wire is the first one the constructor allocates (under a guard more wires follow: dummies)
    def S(self, nm):
        i = self._next("priv"); r = self.rt.PrivVal(self.vals[nm]); self._rec(nm, "priv", i); return r

    def Pub(self, nm):
        i = self._next("pub"); r = self.rt.PubVal(self.vals[nm]); self._rec(nm, "pub", i); return r

    def B(self, nm):
        i = self._next("priv"); r = self.bo.PrivValBool(self.vals[nm]); self._rec(nm, "priv", i); return r

    def F(self, nm):                       # input = representation integer
        i = self._next("priv"); r = self.fx.PrivValFxp(self.vals[nm], False); self._rec(nm, "priv", i); return r

    G = S                                  # guard wires are operands too


def flat(o):
    if builtins.isinstance(o, (list, tuple)):
        for x in o:
            yield from flat(x)
    elif builtins.isinstance(o, dict):
        for k in o:
            yield from flat(o[k])
    elif o is not None:
        if hasattr(o, "arr") and builtins.isinstance(getattr(o, "arr"), list):
            yield from flat(o.arr)
        else:
            yield o


def lincomb_of(o):
    """the runtime.LinComb inside a LinComb / LinCombBool / LinCombFxp, else None"""
    seen = 0
    while hasattr(o, "lc") and not hasattr(o, "value") and seen < 3:
        o = o.lc
        seen += 1
    if hasattr(o, "value") and hasattr(o, "lc"):
        return o
    return None



def ev_concrete(lc, pub, priv, P):
    s = 0
    for k, c in lc.items():
        w = 1 if k == 0 else (pub[k - 1] if k > 0 else priv[-k - 1])
        s += c * w
    return s % P


class _PreludeAbort(Exception):
    pass


SELF_FIRST_VALUES = (3, 1, 2, 0, -1)


def _self_first(env, cfg, entry):
    """the program under test runs once before, on other (concrete) operands, in the same recorder: whatever a first
    execution leaves behind in module-level state (caches keyed too coarsely, remembered operands, counters) meets the
    run under test.  The first candidate operand value the entry accepts is used; a candidate the entry rejects is
    rolled back by a fresh reset."""
    n, r = cfg.get("n", 4), cfg.get("r", 2)
    rt = env.rt
    for v in SELF_FIRST_VALUES:
        k0 = Kit(env, {nm: v for nm in entry.ins}, n, r)
        try:
            entry.fn(k0)
            return v
        except Exception:
            ENV.reset(env, bitlength=n, resolution=r)
            if cfg.get("ignore"):
                rt.ignore_errors(True)
    return None


def run_prelude(env, cfg, entry=None, key="prelude"):
    """history before the program under test: regions that were entered and left (or aborted) earlier in the run must not
    influence it (state restored: C08) -- exercised here so that each property sees such histories too"""
    rt = env.rt
    for kind in cfg.get(key) or ():
        if kind == "self_first":
            _self_first(env, cfg, entry)
            continue
        if kind == "false_region":
            rt.guarded(rt.PrivVal(0))(lambda: None)()
        elif kind == "true_region":
            rt.guarded(rt.PrivVal(1))(lambda: None)()
        elif kind == "aborted_region":
            def boom():
                raise _PreludeAbort()
            try:
                rt.guarded(rt.PrivVal(0))(boom)()
            except _PreludeAbort:
                pass
        else:
            raise KeyError(kind)


def run_concrete(env, entry, cfg, inputs):
    """run entry on plain integers.  returns dict(outcome='ok'|'exc', result, exc, pub, priv, cons, state, ref)"""
    n, r = cfg.get("n", 4), cfg.get("r", 2)
    gmode = cfg.get("guard")
    gnames = []
    if gmode == "sym":
        gnames = ["g"]
    elif builtins.isinstance(gmode, (tuple, list)) and gmode[0] == "nest":
        gnames = ["g%d" % i for i in range(gmode[1])]
    ENV.reset(env, bitlength=n, resolution=r)
    k = Kit(env, dict(inputs), n, r)
    rt = env.rt
    if rt is None:
        out = dict(outcome="ok", result=None, exc=None, state=None, ref=None, kit=k, pub=[], priv=[], cons=[])
        try:
            out["result"] = entry.fn(k)
        except Exception as ex:
            out["outcome"], out["exc"] = "exc", ex
        return out
    if cfg.get("ignore"):
        rt.ignore_errors(True)
    run_prelude(env, cfg, entry)
    def fn():
        # "inner_prelude": regions entered and left inside the guard(s) of the program under test, just before it
        run_prelude(env, cfg, entry, key="inner_prelude")
        return entry.fn(k)
    for gn in reversed(gnames):
        fn = (lambda inner, gn=gn: (lambda: rt.guarded(k.G(gn))(inner)()))(fn)
    if gmode in (0, 1):
        fn = (lambda inner: (lambda: rt.guarded(rt.PrivVal(gmode))(inner)()))(fn)
    out = dict(outcome="ok", result=None, exc=None, state=None, ref=None, kit=k)
    env.track = bool(cfg.get("track_all"))
    try:
        out["result"] = fn()
        if cfg.get("track_all"):
            out["result"] = [out["result"], list(env.created)]
        out["state"] = (rt.guard, rt._ignore_errors, rt.LinComb.ONE is rt.LinComb.ONE_SAFE)
    except Exception as ex:
        out["outcome"] = "exc"
        out["exc"] = ex
    env.track = False
    out["pub"], out["priv"], out["cons"] = ENV.snapshot(env)
    if out["outcome"] == "ok" and entry.ref is not None and cfg.get("want_ref", True):
        try:
            out["ref"] = ("ok", entry.ref(k))
        except Exception as ex:
            out["ref"] = ("exc", ex)
    # always leave the runtime clean
    rt.guard = None
    rt._ignore_errors = False
    rt.LinComb.ONE = rt.LinComb.ONE_SAFE
    return out
