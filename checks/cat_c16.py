"""C16 harnesses: bit decomposition at a requested width and the packers of pysnark.pack."""
from .catalogue import Entry, make_widths, make_asserts, fits, nonneg_bits


def schemas(k):
    pk = k.pk
    n = k.n
    return {
        "bool": (pk.PackBool(), ["b"]),
        "int2": (pk.PackIntMod(2), [2]),
        "int3": (pk.PackIntMod(3), [3]),
        "int5": (pk.PackIntMod(5), [5]),
        "int8": (pk.PackIntMod(8), [8]),
        "int17": (pk.PackIntMod((1 << n) + 1), [(1 << n) + 1]),
        "list_b_i3": (pk.PackList([pk.PackBool(), pk.PackIntMod(3)]), ["b", 3]),
        "rep_i3x2": (pk.PackRepeat(pk.PackIntMod(3), 2), [3, 3]),
        "list_i5_repb2": (pk.PackList([pk.PackIntMod(5), pk.PackRepeat(pk.PackBool(), 2)]), [5, "b", "b"]),
        "rep_list_x2": (pk.PackRepeat(pk.PackList([pk.PackBool(), pk.PackIntMod(3)]), 2), ["b", 3, "b", 3]),
    }

SHAPES = {   # how the flat leaves v0.. are arranged into the structured value
    "bool": lambda v: v[0], "int2": lambda v: v[0], "int3": lambda v: v[0], "int5": lambda v: v[0], "int8": lambda v: v[0],
    "int17": lambda v: v[0], "list_b_i3": lambda v: [v[0], v[1]], "rep_i3x2": lambda v: [v[0], v[1]],
    "list_i5_repb2": lambda v: [v[0], [v[1], v[2]]], "rep_list_x2": lambda v: [[v[0], v[1]], [v[2], v[3]]],
}
NLEAVES = {"bool": 1, "int2": 1, "int3": 1, "int5": 1, "int8": 1, "int17": 1, "list_b_i3": 2, "rep_i3x2": 2,
           "list_i5_repb2": 3, "rep_list_x2": 4}


def leaf_dom(k, name, secret=False):
    _, kinds = schemas(k)[name]
    d = True
    for i, kd in enumerate(kinds):
        v = k.v("v%d" % i)
        if kd == "b" and not secret:
            continue            # PackBool packs the truth value of any plain object: nothing is out of range
        c = ((v == 0) | (v == 1)) if kd == "b" else ((v >= 0) & (v < kd))
        d = c if d is True else (d & c)
    return d


def plain_roundtrip(name):
    def fn(k):
        S, _ = schemas(k)[name]
        val = SHAPES[name]([k.v("v%d" % i) for i in range(NLEAVES[name])])
        bits = S.pack(val)
        return [S.unpack(bits, 0), len(bits) - S.bitlen()]
    return fn


def plain_ref(name, secret=False):
    def ref(k):
        _, kinds = schemas(k)[name]
        vs = [k.v("v%d" % i) for i in range(NLEAVES[name])]
        if not secret:
            # PackBool packs int(bool(v)) for a plain v: the round trip returns the truth value
            vs = [((v != 0) * 1) if kd == "b" else v for v, kd in zip(vs, kinds)]
        return [SHAPES[name](vs), 0]
    return ref


def secret_roundtrip(name):
    def fn(k):
        S, _ = schemas(k)[name]
        val = SHAPES[name]([k.S("v%d" % i) for i in range(NLEAVES[name])])
        bits = S.pack(val)
        return [S.unpack(bits, 0), len(bits) - S.bitlen()]
    return fn


def unpack_bits(m, kind):
    def fn(k):
        P = k.pk.PackIntMod(m)
        bl = P.bitlen()
        bits = [(k.B if kind == "bool" else k.S)("b%d" % i) for i in range(bl)]
        return P.unpack(bits, 0)
    return fn


def bits_value(k, m):
    bl = (m - 1).bit_length()
    acc = 0
    for i in range(bl):
        acc = acc + (1 << i) * k.v("b%d" % i)
    return acc


def build(n=4, tier="quick"):
    ents = []
    # A. widths: the bit entries of the operation catalogue, re-judged under C16 (extra widths in the thorough tier)
    for e in make_widths(n) + [a for a in make_asserts(n) if "positive" in a.tags]:
        if "pow" in e.tags:
            continue             # operand reuse after a secret-exponent power belongs to C05
        ents.append(e)
    names = list(SHAPES) if tier != "quick" else ["bool", "int3", "int5", "int8", "int17", "list_b_i3", "rep_i3x2", "list_i5_repb2"]
    for nm in names:
        ins = tuple("v%d" % i for i in range(NLEAVES[nm]))
        ents.append(Entry("pack_plain_" + nm, plain_roundtrip(nm), ins, ref=plain_ref(nm),
                          dom=(lambda k, nm=nm: leaf_dom(k, nm)), tags={"pack", "plain"}))
        ents.append(Entry("oob_pack_plain_" + nm, plain_roundtrip(nm), ins, ref=(lambda k, nm=nm: leaf_dom(k, nm)),
                          dom=(lambda k, nm=nm: leaf_dom(k, nm)), tags={"pack", "plain", "assert", "nocircuit"}))
        ents.append(Entry("pack_secret_" + nm, secret_roundtrip(nm), ins, ref=plain_ref(nm, True),
                          dom=(lambda k, nm=nm: leaf_dom(k, nm, True)), tags={"pack", "secret"}))
    for m in ([3, 5, 8] if tier == "quick" else [2, 3, 5, 8, (1 << n) + 1, 64]):
        bl = (m - 1).bit_length()
        ins = tuple("b%d" % i for i in range(bl))
        for kind in ("bool", "lc"):
            isb = (lambda k, bl=bl: _allbits(k, bl))
            ents.append(Entry("unpack_int%d_%sbits" % (m, kind), unpack_bits(m, kind), ins,
                              ref=(lambda k, m=m: bits_value(k, m)),
                              dom=(lambda k, m=m, bl=bl: _allbits(k, bl) & (bits_value(k, m) < m)),
                              assume=(lambda k, bl=bl: [_allbits(k, bl)]),
                              tags={"pack", "unpack", kind + "bits", "m=%d" % m}))
            ents.append(Entry("range_unpack_int%d_%sbits" % (m, kind), unpack_bits(m, kind), ins,
                              ref=(lambda k, m=m: bits_value(k, m) < m), dom=None,
                              assume=(lambda k, bl=bl: [_allbits(k, bl)]),
                              tags={"pack", "unpack", "assert", kind + "bits", "m=%d" % m}))
    nms = [e.name for e in ents]
    assert len(nms) == len(set(nms)), [x for x in nms if nms.count(x) > 1]
    return ents


def _allbits(k, bl):
    d = True
    for i in range(bl):
        v = k.v("b%d" % i)
        c = (v == 0) | (v == 1)
        d = c if d is True else (d & c)
    return d


def by_name(n=4, tier="thorough"):
    return {e.name: e for e in build(n, tier)}
