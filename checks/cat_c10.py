"""C10 harnesses: run a small traced program, call the real snarkjs prove(), decode the two captured files with an
independent reader of the iden3 .r1cs v1 / .wtns v2 layouts and state what must hold as observations."""
from .catalogue import Entry


# ------------------------------------------------------------------ independent decoder (shares nothing with the writer)
class Reader:
    def __init__(self, items):
        self.b = items
        self.pos = 0

    def take(self, n):
        if self.pos + n > len(self.b):
            raise ValueError("truncated file: need %d bytes at %d of %d" % (n, self.pos, len(self.b)))
        r = self.b[self.pos:self.pos + n]
        self.pos += n
        return r

    def uint(self, n):
        v = 0
        for i, x in enumerate(self.take(n)):
            if type(x) is not int:
                raise ValueError("structural field is not concrete")
            v += x << (8 * i)
        return v

    def felt(self, n):
        """field element: little-endian sum (possibly symbolic)"""
        v = 0
        for i, x in enumerate(self.take(n)):
            v = v + x * (1 << (8 * i))
        return v

    def eof(self):
        return self.pos == len(self.b)


def flatten(chunks):
    out = []
    for c in chunks:
        out.extend(list(c))
    return out


def decode_wtns(items):
    r = Reader(items)
    d = dict(magic=bytes(r.take(4)), version=r.uint(4), nsections=r.uint(4), sections=[])
    for _ in range(d["nsections"]):
        st, sz = r.uint(4), r.uint(8)
        start = r.pos
        if st == 1:
            fs = r.uint(4)
            d.update(field_size=fs, prime=r.uint(fs), nwitness=r.uint(4))
        elif st == 2:
            d["witness"] = [r.felt(d["field_size"]) for _ in range(d["nwitness"])]
        else:
            r.take(sz)
        d["sections"].append((st, sz, r.pos - start))
    d["trailing"] = len(items) - r.pos
    return d


def decode_r1cs(items):
    r = Reader(items)
    d = dict(magic=bytes(r.take(4)), version=r.uint(4), nsections=r.uint(4), sections=[])
    for _ in range(d["nsections"]):
        st, sz = r.uint(4), r.uint(8)
        start = r.pos
        if st == 1:
            fs = r.uint(4)
            d.update(field_size=fs, prime=r.uint(fs), nwires=r.uint(4), npubout=r.uint(4), npubin=r.uint(4),
                     nprvin=r.uint(4), nlabels=r.uint(8), nconstraints=r.uint(4))
        elif st == 2:
            cons = []
            for _c in range(d["nconstraints"]):
                lcs = []
                for _l in range(3):
                    nt = r.uint(4)
                    lcs.append([(r.uint(4), r.felt(d["field_size"])) for _t in range(nt)])
                cons.append(lcs)
            d["constraints"] = cons
        elif st == 3:
            d["labels"] = [r.uint(8) for _ in range(sz // 8)]
        else:
            r.take(sz)
        d["sections"].append((st, sz, r.pos - start))
    d["trailing"] = len(items) - r.pos
    return d


# ------------------------------------------------------------------ programs
def p_mul(k):
    x = k.S("x"); y = k.S("y")
    z = k.Pub("z")
    (x * y + z).val()


def p_lin(k):
    x = k.S("x")
    y = -x
    (x + y).assert_zero()          # x - x: zero coefficient terms and the empty combination
    (x * 5 - y * 3 + 7).val()


def p_div3(k):
    x = k.S("x")
    q = (x * 3) / 3                # coefficient inv(3): a 254-bit field element
    q.assert_eq(x)
    ((q * 9) / 3 / 3).val()        # inv(3)^2: an unreduced coefficient of about 508 bits


def p_negbig(k):
    x = k.S("x"); y = k.S("y")
    q = (x * 9) / 3 / 3 * -5           # coefficient -5*inv(3)^2: negative and far below -p
    (y - (x * 3) / 3 * 4 + q).val()    # and -4*inv(3)... between -4p and 0
    (q * y).val()


def p_cancel(k):
    x = k.S("x"); y = k.S("y")
    ((x + y - x) * y).val()            # a term whose coefficient cancelled to 0 stays in the combination
    ((x * 7 - x * 7 + y) * (y - y + 1)).val()


def p_cmp(k):
    x = k.S("x"); y = k.S("y")
    (x < y).val()


def p_pubs(k):
    a = k.Pub("x"); b = k.Pub("y")
    c = k.S("z")
    (a * c).assert_eq(b * c)
    (a - b).val()


def p_empty(k):
    pass


PROGRAMS = dict(negbig=(p_negbig, ("x", "y")), cancel=(p_cancel, ("x", "y")), mul=(p_mul, ("x", "y", "z")), lin=(p_lin, ("x",)), div3=(p_div3, ("x",)), cmp=(p_cmp, ("x", "y")),
                pubs=(p_pubs, ("x", "y", "z")), empty=(p_empty, ()))


def run_snarkjs(k, prog):
    env = k.env
    be = env.rec
    P = be.get_modulus()
    prog(k)
    pub, priv = list(be.pubvals), list(be.privvals)
    cons = [[dict(c[0].lc), dict(c[1].lc), dict(c[2].lc)] for c in be.constraints]
    be.prove()
    obs = []
    files = env.files
    obs.append(("both files written exactly once", sorted(files) == ["circuit.r1cs", "witness.wtns"]
                and all(len(v) == 1 and v[0].closed for v in files.values())))
    if not obs[-1][1]:
        return obs
    try:
        W = decode_wtns(flatten(files["witness.wtns"][0].chunks))
        R = decode_r1cs(flatten(files["circuit.r1cs"][0].chunks))
    except ValueError as ex:
        obs.append(("files decode (%s)" % ex, False))
        return obs
    nw = 1 + len(pub) + len(priv)
    # ---- witness file
    obs.append(("wtns: magic/version/sections", W["magic"] == b"wtns" and W["version"] == 2 and W["nsections"] == 2
                and [s[0] for s in W["sections"]] == [1, 2]))
    obs.append(("wtns: declared section sizes equal actual content", all(sz == used for _, sz, used in W["sections"])
                and W["trailing"] == 0))
    obs.append(("wtns: field size 32, prime, count", W.get("field_size") == 32 and W.get("prime") == P and W.get("nwitness") == nw))
    traced = [1] + pub + priv
    if len(W.get("witness", [])) == nw:
        for i, (dec, v) in enumerate(zip(W["witness"], traced)):
            obs.append(("wtns: element %d decodes to the traced value mod p" % i, ("eq", dec, v % P)))
            obs.append(("wtns: element %d is canonical (< p)" % i, dec < P))
    else:
        obs.append(("wtns: number of elements", False))
    # ---- circuit file
    obs.append(("r1cs: magic/version/sections", R["magic"] == b"r1cs" and R["version"] == 1 and R["nsections"] == 3
                and sorted(s[0] for s in R["sections"]) == [1, 2, 3]))
    obs.append(("r1cs: declared section sizes equal actual content", all(sz == used for _, sz, used in R["sections"])
                and R["trailing"] == 0))
    obs.append(("r1cs: header counts", R.get("field_size") == 32 and R.get("prime") == P and R.get("nwires") == nw
                and R.get("npubout", 0) + R.get("npubin", 0) == len(pub) and R.get("nprvin") == 0
                and R.get("nconstraints") == len(cons)))
    obs.append(("r1cs: wire map has one entry per wire", len(R.get("labels", [])) == nw))
    if len(R.get("constraints", [])) == len(cons):
        for ci, (dec, tr) in enumerate(zip(R["constraints"], cons)):
            for li, (dl, tl) in enumerate(zip(dec, tr)):
                want = {}
                for kk, c in tl.items():
                    wid = kk if kk >= 0 else len(pub) - kk        # one, then public in order, then private in order
                    want[wid] = c
                obs.append(("r1cs: constraint %d part %d lists the traced wires in the numbering one|public|private" % (ci, li),
                            sorted(w for w, _ in dl) == sorted(want) and len(dl) == len(want)))
                for w, cf in dl:
                    if w in want:
                        obs.append(("r1cs: constraint %d part %d coefficient of wire %d" % (ci, li, w), ("eq", cf, want[w] % P)))
                        obs.append(("r1cs: constraint %d part %d coefficient of wire %d canonical" % (ci, li, w), cf < P))
        # decoded witness satisfies decoded constraints
        # (follows from the element-wise claims above plus C01; stated directly only on concrete runs -- translator
        #  validation and replay -- because the products of decoded elements are non-linear for the solver)
        if len(W.get("witness", [])) == nw and all(type(x) is int for x in W["witness"]):
            wv = W["witness"]
            for ci, dec in enumerate(R["constraints"]):
                if all(w < nw for l in dec for w, _ in l):
                    ev = [sum(cf * wv[w] for w, cf in l) for l in dec]
                    obs.append(("decoded witness satisfies decoded constraint %d" % ci, ("cong", ev[0] * ev[1], ev[2])))
    else:
        obs.append(("r1cs: number of constraints", False))
    return obs


def build(n=4, tier="quick"):
    ents = []
    for nm, (prog, ins) in PROGRAMS.items():
        ents.append(Entry("snarkjs_" + nm, (lambda k, prog=prog: run_snarkjs(k, prog)), ins, tags={"c10"},
                          may_raise=(ValueError, AssertionError)))
    return ents


def by_name(n=4, tier="thorough"):
    return {e.name: e for e in build(n, tier)}
