"""C12: qaptools equation / wire / I-O files are consistent and split faithfully."""
from . import cat_c12 as CAT12
from . import common as C
from .obsjob import run_obs_job
from .catjob import lookup

PID = "C12"


def jobs(tier):
    return [dict(name=e.name, entry=e.name, backend="qaptools", cfg=dict(n=8, r=2, guard=None, bound=1 << 64), tier=tier,
                 catalogue="checks.cat_c12", pid=PID, weight=1) for e in CAT12.build(8, tier)]


def run_job(env, spec):
    return run_obs_job(PID, env, spec, lookup(spec), "checks.cat_c12")


def main(argv):
    tier = C.tier()
    rep = C.Report(PID)
    rep.functions |= {"pysnark.qaptools.backend: privval/pubval/one/add_constraint/enterfn/continuefn/vc_declare_block/vc_glue/subqap/prove/Sig.__str__",
                      "pysnark.qaptools.qapsplit.qapsplit/contextualize/getqap/qaphash", "pysnark.qaptools.options (file names)"}
    rep.bounds = dict(programs=sorted(CAT12.PROGRAMS), calls="a sub-circuit called 1-3 times, nesting depth 2, list arguments",
                      values="symbolic < 2^64 rendered as tokens in the text files")
    rep.assumptions = ["qaptools binaries are absent: failing stand-ins; the Python side must have written all its files before the first tool runs",
                       "randomness (SystemRandom) is an arbitrary field element",
                       "'different signature whenever the equations differ' is collision resistance of a 40-bit MD5 prefix: outside the claim"]
    js = jobs(tier)
    if argv:
        js = [j for j in js if any(a in j["name"] for a in argv)]
    for r in C.run_jobs("c12", js):
        rep.absorb(r)
    return rep.finish("./check C12")
