"""C13: backend linear combinations form a faithful immutable algebra over a prime field; inverse and modulus."""
from . import cat_c13 as CAT13
from . import common as C
from .obsjob import run_obs_job
from .catjob import lookup

PID = "C13"


def jobs(tier):
    js = []
    plan = [("snarkjs", "dict"), ("zkinterface", "dict"), ("qaptools", "sig")]
    if tier == "thorough":
        plan += [("zkifbellman", "dict"), ("zkifbulletproofs", "dict")]
    for be, kind in plan:
        for e in CAT13.build(4, tier):
            if ("dict" in e.tags or "sig" in e.tags) and kind not in e.tags:
                continue
            if "small" in e.tags and be != "snarkjs":
                continue
            if "shared" in e.tags and be == "qaptools":
                continue
            if "zkif" in e.tags and not be.startswith("zki"):
                continue
            js.append(dict(name="%s/%s" % (e.name, be), entry=e.name, backend=be, cfg=dict(n=4, r=2, guard=None, bound=None),
                           tier=tier, catalogue="checks.cat_c13", pid=PID, weight=1, job_timeout=60))
    if tier == "quick":
        for be in ("zkifbellman", "zkifbulletproofs"):
            for nm in ("constants", "inverse", "inverse_after_field_switch"):
                js.append(dict(name="%s/%s" % (nm, be), entry=nm, backend=be, cfg=dict(n=4, r=2, guard=None, bound=None),
                               tier=tier, catalogue="checks.cat_c13", pid=PID, weight=1))
    return js


def run_job(env, spec):
    return run_obs_job(PID, env, spec, lookup(spec), "checks.cat_c13")


def main(argv):
    tier = C.tier()
    rep = C.Report(PID)
    rep.functions |= {"pysnark.snarkjsbackend.LinearCombination.__add__/__sub__/__mul__/__neg__, zero, one, fieldinverse, get_modulus",
                      "pysnark.zkinterface.backend.LinearCombination.*, fieldinverse, set_modulus/get_modulus",
                      "pysnark.qaptools.backend.Sig.__add__/__sub__/__mul__/__neg__, fieldinverse", "pysnark.gmpy.invert (pure Python fallback)"}
    rep.bounds = dict(expression_depth=2 if tier == "quick" else 3, coefficients_scalars_assignment="symbolic, any integer",
                      invert_small="gmpy.invert executed symbolically for primes 3,5,7,13 and |x| <= 40",
                      backends="snarkjs, zkinterface, qaptools (+ bellman/bulletproofs constants and inverse; full algebra in thorough)")
    rep.assumptions = ["Fermat: pow(x,p-2,p) for the 250-bit primes is axiomatised (CPython's pow is outside the claim)",
                       "primality by Miller-Rabin with the first 30 prime bases plus equality with the curve order recomputed from the curve parameters",
                       "libsnark classes are a C++ extension (absent): outside the claim; nobackend is not proof-producing"]
    js = jobs(tier)
    if argv:
        js = [j for j in js if any(a in j["name"] for a in argv)]
    for r in C.run_jobs("c13", js):
        rep.absorb(r)
    return rep.finish("./check C13")
