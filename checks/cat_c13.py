"""C13 harnesses: the backends' linear-combination algebra, the inverse function and the field constants."""
import itertools
from .catalogue import Entry

CURVES = {
    # group orders recomputed from the curve parameters
    "bn254": (lambda u=4965661367192848881: 36 * u**4 + 36 * u**3 + 18 * u**2 + 6 * u + 1)(),
    "bls12-381": (lambda u=-0xd201000000010000: u**4 - u**2 + 1)(),
    "curve25519": 2**252 + 27742317777372353535851937790883648493,
}
EXPECT = {"snarkjs": "bn254", "zkinterface": "bn254", "zkifbellman": "bls12-381", "zkifbulletproofs": "curve25519",
          "qaptools": "bn254"}


def is_probable_prime(n):
    if n < 2:
        return False
    small = [2, 3, 5, 7, 11, 13, 17, 19, 23, 29, 31, 37, 41, 43, 47, 53, 59, 61, 67, 71, 73, 79, 83, 89, 97, 101, 103, 107, 109, 113]
    for p in small:
        if n % p == 0:
            return n == p
    d, s = n - 1, 0
    while d % 2 == 0:
        d //= 2
        s += 1
    for a in small:
        x = pow(a, d, n)
        if x in (1, n - 1):
            continue
        for _ in range(s - 1):
            x = x * x % n
            if x == n - 1:
                break
        else:
            return False
    return True


# ------------------------------------------------------------------ uniform view on the two LC representations
class DictLC:
    def __init__(self, be):
        self.cls = be.LinearCombination
        self.be = be

    def leaf(self, terms):
        return self.cls(dict(terms))

    def zero(self):
        return self.be.zero()

    def one(self):
        return self.be.one()

    def snapshot(self, lc):
        return sorted(lc.lc.items(), key=lambda kv: kv[0])

    def same(self, snap, lc):
        now = self.snapshot(lc)
        return len(now) == len(snap) and all(a[0] == b[0] and a[1] is b[1] for a, b in zip(snap, now))

    def eval(self, lc, w):
        s = 0
        for k, c in lc.lc.items():
            s = s + c * w[k]
        return s


class SigLC:
    def __init__(self, be):
        self.cls = be.Sig
        self.be = be

    def leaf(self, terms):
        return self.cls([(c, "v%d" % k) for k, c in terms])

    def zero(self):
        return self.be.zero()

    def one(self):
        return self.cls([(1, "v0")])

    def snapshot(self, lc):
        return list(lc.sig)

    def same(self, snap, lc):
        return len(lc.sig) == len(snap) and all(a[0] is b[0] and a[1] == b[1] for a, b in zip(snap, lc.sig))

    def eval(self, lc, w):
        s = 0
        for c, v in lc.sig:
            s = s + c * w[int(v[1:])]
        return s


def leaves(k, V, conc=None):
    a = list(conc) if conc is not None else [k.v("a%d" % i) for i in range(5)]
    return [("x1", lambda: V.leaf([(1, a[0])])), ("x2", lambda: V.leaf([(2, a[1])])),
            ("x1x3", lambda: V.leaf([(1, a[2]), (3, a[3])])), ("one", lambda: V.leaf([(0, a[4])])), ("zero", lambda: V.zero()),
            # the same variables as x1x3, collected in the opposite order, with other coefficients
            ("x3x1", lambda: V.leaf([(3, a[1]), (1, a[0])]))]


def exprs(depth):
    """expression shapes as nested tuples over leaf indices 0..4: ('L',i) | ('neg',e) | ('mul',e) | ('add',e,f) | ('sub',e,f)"""
    L = [("L", i) for i in range(6)]
    d1 = [("neg", e) for e in L] + [("mul", e) for e in L] + [(o, e, f) for o in ("add", "sub") for e in L for f in L]
    if depth == 1:
        return d1
    d2 = [("neg", e) for e in d1] + [("mul", e) for e in d1]
    d2 += [(o, e, f) for o in ("add", "sub") for e in d1 for f in L] + [(o, f, e) for o in ("add", "sub") for e in d1 for f in L]
    if depth == 2:
        return d1 + d2
    d3 = [(o, e, f) for o in ("add", "sub") for e in d2[::37] for f in d1[::5]] + [("mul", e) for e in d2[::11]]
    return d1 + d2 + d3


def concrete_coefficients(P):
    """coefficient settings under which shared terms cancel exactly / cancel only modulo p / do not cancel"""
    return [((1, 2, 1, 3, 5), 3), ((1, P - 1, 2, P - 2, 0), P - 1), ((-1, 1, 1, -1, 1), -1), ((P, 2 * P, 1, P + 3, 1), 1)]


def run_algebra(k, kind, shapes, conc=None):
    be = k.env.be if kind != "zk" else k.env.rec
    V = SigLC(be) if kind == "sig" else DictLC(be)
    P = k.env.P
    w = [1] + [k.v("w%d" % i) for i in range(1, 4)]
    if conc is not None:
        coeffs, s = concrete_coefficients(P)[conc]
        lv = leaves(k, V, coeffs)
    else:
        s = k.v("s")
        lv = leaves(k, V)
    obs = []
    for shape in shapes:
        def build(e):
            """returns (object, value term)"""
            if e[0] == "L":
                o = lv[e[1]][1]()
                return o, V.eval(o, w)
            if e[0] in ("neg", "mul"):
                u, uv = build(e[1])
                snap = V.snapshot(u)
                r = -u if e[0] == "neg" else u * s
                obs.append(("%s leaves its operand unchanged: %s" % (e[0], short(e)), V.same(snap, u)))
                return r, (-uv if e[0] == "neg" else uv * s)
            u, uv = build(e[1])
            v, vv = build(e[2])
            su, sv = V.snapshot(u), V.snapshot(v)
            r = (u + v) if e[0] == "add" else (u - v)
            obs.append(("%s leaves its operands unchanged: %s" % (e[0], short(e)), V.same(su, u) and V.same(sv, v)))
            return r, (uv + vv if e[0] == "add" else uv - vv)
        r, rv = build(shape)
        obs.append(("evaluation is a homomorphism: %s" % short(shape), ("cong", V.eval(r, w), rv)))
    return obs


def short(e):
    if e[0] == "L":
        return ["x1", "x2", "x1x3", "one", "zero", "x3x1"][e[1]]
    if e[0] in ("neg", "mul"):
        return "%s(%s)" % (e[0], short(e[1]))
    return "%s(%s,%s)" % (e[0], short(e[1]), short(e[2]))


def run_inverse(k):
    be = k.env.be
    P = k.env.P
    x = k.v("x")
    obs = []
    try:
        r = be.fieldinverse(x)
    except ZeroDivisionError:
        obs.append(("fieldinverse raises ZeroDivisionError only for arguments = 0 mod p", (x % P) == 0))
        return obs
    obs.append(("fieldinverse result is reduced", (r >= 0) & (r < P)))
    obs.append(("x * fieldinverse(x) = 1 mod p (negative and unreduced x included)", ("cong", x * r, 1)))
    obs.append(("fieldinverse returns only for non-zero arguments", (x % P) != 0))
    return obs


def run_inverse_plain(k):
    """the same three claims on plain integers (no symbolic input): decides nothing beyond these points, but it still judges
    an implementation whose loop count depends on the argument (Euclid) and which the symbolic job cannot finish"""
    be = k.env.be
    P = int(k.env.P)
    obs = []
    for v in (1, 2, 7, P - 1, P + 2, 3 * P + 5, 1 << 300, -1, -3, -7, -(P - 1), -(P + 4), -(1 << 200), 0, P, -P):
        try:
            r = be.fieldinverse(v)
        except ZeroDivisionError:
            obs.append(("fieldinverse(%d) raises ZeroDivisionError only for arguments = 0 mod p" % v, v % P == 0))
            continue
        obs.append(("fieldinverse(%d) is reduced" % v, 0 <= r < P))
        obs.append(("%d * fieldinverse(%d) = 1 mod p" % (v, v), (v * r) % P == 1))
    return obs


def run_inverse_after_field_switch(k):
    """the zkinterface base module serves three fields through set_modulus(): an inverse asked for under one field says
    nothing about the same argument under another (plain integers; the module's own API is used to switch and switch back)"""
    zb = k.env.rec
    if not hasattr(zb, "set_modulus"):
        return []
    obs = []
    p0 = zb.get_modulus()
    primes = [CURVES["bn254"], CURVES["bls12-381"], CURVES["curve25519"]]
    try:
        for step, p in enumerate(primes + primes[:1]):
            zb.set_modulus(p)
            for v in (7, -3, 1 << 200):
                obs.append(("after set_modulus (step %d): %s * fieldinverse(%s) = 1 modulo the field now in effect" % (step, v, v),
                            (v * zb.fieldinverse(v)) % zb.get_modulus() == 1))
    finally:
        zb.set_modulus(p0)
    return obs


def run_invert_small(k, m):
    gm = k.env.gm
    x = k.v("x")
    # the argument range is finite: fork on its value, so that whatever algorithm invert() uses (loops included) runs on
    # a concrete integer on each path; all 81 paths are explored
    for v in range(-40, 41):
        if x == v:
            x = v
            break
    obs = []
    try:
        y = gm.invert(x, m)
    except ZeroDivisionError:
        obs.append(("invert(x, %d) raises only for x = 0 mod %d" % (m, m), (x % m) == 0))
        return obs
    obs.append(("invert(x, %d): x*y = 1 mod %d" % (m, m), ((x * y) % m) == 1))
    obs.append(("invert(x, %d): 0 < y < m" % m, (y > 0) & (y < m)))
    return obs


def run_constants(k):
    name = k.env.backend_name
    P = k.env.be.get_modulus()
    obs = [("%s: reported modulus is the scalar-field order of %s" % (name, EXPECT[name]), P == CURVES[EXPECT[name]]),
           ("%s: reported modulus is prime (Miller-Rabin, 30 bases)" % name, is_probable_prime(P)),
           ("%s: get_modulus agrees with the module constant" % name, P == getattr(k.env.rec, "snarkjsp", None)
            or P == getattr(k.env.rec, "modulus", None) or P == getattr(k.env.be, "vc_p", None))]
    return obs


def run_shared_constants(k):
    rt = k.rt
    one0, zero0 = dict_or_list(rt.LinComb.ONE.lc), dict_or_list(rt.LinComb.ZERO.lc)
    x = k.S("x"); y = k.S("y")
    z = (x + 1) * (y - 1) + rt.LinComb.ONE - rt.LinComb.ZERO
    z2 = -(rt.LinComb.ONE * 5) + rt.LinComb.ZERO * 3 - x
    (z + z2).val()
    return [("runtime constants ONE / ZERO are not altered by arithmetic that uses them",
             dict_or_list(rt.LinComb.ONE.lc) == one0 and dict_or_list(rt.LinComb.ZERO.lc) == zero0)]


def dict_or_list(lc):
    return sorted(lc.lc.items()) if hasattr(lc, "lc") else list(lc.sig)


def build(n=4, tier="quick", backend="snarkjs"):
    depth = 2 if tier == "quick" else 3
    sh = exprs(depth)
    if tier == "quick":
        sh = exprs(1) + exprs(2)[len(exprs(1))::6]
    ents = []
    ins = tuple("a%d" % i for i in range(5)) + ("w1", "w2", "w3", "s")
    B = 25
    for kind in ("dict", "sig"):
        for bi in range(0, len(sh), B):
            ents.append(Entry("alg_%s_%03d" % (kind, bi // B), (lambda k, kind=kind, part=sh[bi:bi + B]: run_algebra(k, kind, part)),
                              ins, tags={"c13", kind}))
    # the same shapes with concrete coefficients (exact / modular / no cancellation) and symbolic wire values: no
    # branching on coefficients, so every shape is decided whatever the implementation does with vanishing terms
    shc = exprs(2) if tier == "quick" else sh
    for kind in ("dict", "sig"):
        for ci in range(4):
            for bi in range(0, len(shc), 100):
                ents.append(Entry("algc_%s_c%d_%03d" % (kind, ci, bi // 100),
                                  (lambda k, kind=kind, ci=ci, part=shc[bi:bi + 100]: run_algebra(k, kind, part, conc=ci)),
                                  ("w1", "w2", "w3"), tags={"c13", kind, "concrete"}))
    ents.append(Entry("inverse", run_inverse, ("x",), tags={"c13", "inv"}))
    ents.append(Entry("inverse_plain", run_inverse_plain, (), tags={"c13", "inv"}))
    ents.append(Entry("inverse_after_field_switch", run_inverse_after_field_switch, (), tags={"c13", "inv", "zkif"}))
    for m in (3, 5, 7, 13):
        ents.append(Entry("invert_small_%d" % m, (lambda k, m=m: run_invert_small(k, m)), ("x",),
                          assume=(lambda k: [(k.v("x") > -41) & (k.v("x") < 41)]), tags={"c13", "inv", "small"}))
    ents.append(Entry("constants", run_constants, (), tags={"c13", "const"}))
    ents.append(Entry("shared_constants", run_shared_constants, ("x", "y"), tags={"c13", "shared"}))
    return ents


def by_name(n=4, tier="thorough"):
    return {e.name: e for e in build(n, tier)}
