"""C06: the constraint system does not depend on the values processed.  All feasible completed paths of a program --
errors on, ignore_errors on (invalid inputs), both values of every guard -- must emit one canonical trace."""
import random
import z3

from symtrace import engine as E, harness as H, oblig as O
from . import catalogue as CAT
from . import common as C
from .catjob import lookup, Job, gtag, cfg_json
from .c01 import is_heavy, is_very_heavy

PID = "C06"


def jobs(tier):
    js = []
    ns = [4] if tier == "quick" else [4, 8]
    for n in ns:
        ents = CAT.build(n, tier if n == 4 else "quick")
        bound = (1 << 64) if tier == "quick" else (1 << 120)
        for e in ents:
            heavy = is_heavy(e)
            if heavy and n > 4:
                continue
            if is_very_heavy(e) and tier == "quick":
                continue
            groups = [("plain", [dict(guard=None), dict(guard=None, ignore=True)])]
            if heavy and tier == "quick":
                groups = [("plain", [dict(guard=None), dict(guard=None, ignore=True)])] if "rshift" not in e.tags else \
                    [("plain", [dict(guard=None)])]
            if not heavy:
                groups.append(("guard", [dict(guard="sym"), dict(guard="sym", ignore=True)]))
            if n == 4 and ((("comp" in e.tags or "sel" in e.tags or "arr" in e.tags) and tier == "thorough") or
                           e.name in ("int_lt_ss", "int_mul_ss", "int_eq_ss", "sel_ite", "arr_read_s2", "int_floordiv_ss")):
                groups.append(("nest2", [dict(guard=("nest", 2))]))
            for gname, modes in groups:
                cfgs = []
                for m in modes:
                    c = dict(n=n, r=2, bound=bound, want_ref=False)
                    c.update(m)
                    cfgs.append(c)
                js.append(dict(name="%s/n%d/%s" % (e.name, n, gname), entry=e.name, backend="snarkjs", cfg=cfgs[0],
                               cfgs=cfgs, tier=tier, weight=(50 if heavy else 1) * n))
    # how later calls are traced depends on the Python *type* of values read back: a fixed-point value is read back as a
    # float whatever its value (an int for whole numbers would make the trace of the next @snark call depend on the value)
    js.append(dict(name="fxp_val_obs/n8r2/readback-type", entry="fxp_val_obs", backend="snarkjs", catalogue="checks.cat_c14",
                   analysis="obs", cfg=dict(n=8, r=2, guard=None, bound=(1 << 30)), tier=tier, weight=1))
    return js


def run_job(env, spec):
    if spec.get("analysis") == "obs":
        from .obsjob import run_obs_job
        return run_obs_job(spec.get("pid", PID), env, spec, lookup(spec), spec.get("catalogue"))
    entry = lookup(spec)
    job = Job(spec.get("pid", PID), env, spec, entry, spec.get("catalogue", "checks.catalogue"))
    H.STATS.__init__()
    classes = {}       # canonical trace -> (cfg, trace, vals)
    total = 0
    for cfg in spec["cfgs"]:
        job.cfg = dict(cfg)
        traces = job.explore()
        total += job.res["paths"]
        for t in traces:
            if not t.path.ok:
                continue
            ct = O.canon_trace(env, t, with_result=spec.get("trace_results", True))
            # a symbolic coefficient is value dependence by construction
            if "sym:" in repr(ct):
                job.res["errors"].append("%s: symbolic coefficient in a linear combination (value-dependent circuit)" % job.name)
                continue
            classes.setdefault(ct, []).append((dict(cfg), t, job.vals))
    job.res["paths"] = total
    keys = list(classes)
    job.obligation("unsat" if len(keys) <= 1 else "sat")
    if len(keys) > 1:
        # two representatives: one model per class, replayed concretely
        (c1, t1, v1), (c2, t2, v2) = classes[keys[0]][0], classes[keys[1]][0]
        s1, m1 = H.solve(t1.path.facts(), [], job.timeout)
        s2, m2 = H.solve(t2.path.facts(), [], job.timeout)
        if s1 == "sat" and s2 == "sat":
            i1, i2 = H.model_inputs(m1, v1), H.model_inputs(m2, v2)
            a, b = keys[0], keys[1]
            what = "variable counts %s vs %s" % (a[:2], b[:2]) if a[:2] != b[:2] else (
                "constraints differ" if a[2] != b[2] else "result wire expressions differ")
            job.finding("c06", "%d distinct constraint systems; %s between inputs %s [%s] and %s [%s]" % (
                len(keys), what, i1, gtag(c1), i2, gtag(c2)),
                dict(kind="c06", runs=[dict(cfg=cfg_json(c1), inputs=i1), dict(cfg=cfg_json(c2), inputs=i2)],
                     trace_results=spec.get("trace_results", True)))
        else:
            job.inconclusive("two trace classes but no model for a representative")
    job.sample(dict(classes=len(keys), completed_paths=sum(len(v) for v in classes.values()),
                    modes=[gtag(c) for c in spec["cfgs"]],
                    shape=[(k[0], k[1], len(k[2])) for k in keys][:3]))
    return job.done()


def main(argv):
    tier = C.tier()
    rep = C.Report(PID)
    rep.functions |= {"pysnark.runtime.LinComb.* / add_constraint / add_guard / guarded", "pysnark.boolean.LinCombBool.*",
                      "pysnark.branching.if_then_else", "pysnark.array.Array.__getitem__/__setitem__",
                      "process rows: one block-API program (if/else, while, for; five variables) traced in interpreters that differ in "
                      "PYTHONHASHSEED and in the secret inputs -- one recorded system"}
    rep.bounds = dict(bitlength=[4] if tier == "quick" else [4, 8], programs="catalogue singles + depth-2 compositions",
                      modes="errors on + ignore_errors pooled; guard g=0/1 (+ignore_errors) pooled; nested guards (thorough)",
                      operand_magnitude="< 2^64" if tier == "quick" else "< 2^120")
    rep.assumptions = ["exhaustive over feasible paths within the bounds: every value-dependent Python branch in the traced "
                       "code is a fork of the engine", "guard values 0/1"]
    js = jobs(tier)
    if argv:
        js = [j for j in js if any(a in j["name"] for a in argv)]
    for r in C.run_jobs("c06", js):
        rep.absorb(r)
    if not argv or any(a in "hashseed" for a in argv):
        from .c06_rows import part_b
        part_b(rep, tier, C.load_known(PID))
    return rep.finish("./check C06")
