#!/usr/bin/env python3
"""Regenerate MANIFEST.json from the table below (kept in one place so that it stays valid)."""
import json, os
HERE = os.path.dirname(os.path.dirname(os.path.abspath(__file__)))
props = [json.loads(l) for l in open(os.path.join(HERE, "properties.jsonl"))]

CHECKS = {
 "C01": dict(level="model_checking", technique="symbolic execution of the real gadgets (symtrace/z3): per-path SMT obligation 'recorded hints satisfy every emitted constraint mod p'",
             text="Bounded symbolic model checking: every catalogue program is executed on symbolic integers along all feasible paths; for each completed path z3 proves (or the polynomial normaliser discharges) that the recorded witness satisfies each emitted constraint modulo p for ALL operand values within the bounds. Models are replayed on the unmodified library.",
             note="Trusted: the symtrace engine's encoding of Python int semantics (validated per path against a concrete run), z3, the Fermat axiom for field inverses. Bounds: bitlength 4 (quick) / 4,8,16 (thorough), guard nesting <= 2, catalogue of operators/assertions/selection/arrays/compositions; fixed point, packing and hashes are covered by C14/C16/C20.", ref="5/C01"),
 "C04": dict(level="model_checking", technique="symbolic execution (symtrace/z3): per-path SMT obligation 'value = wire expression (mod p)' for every LinComb object constructed",
             text="Bounded symbolic model checking: every runtime.LinComb constructed during a catalogue program (intermediate and returned), in plain, guarded (g=0/1, nested), and ignore-errors modes, is shown congruent to its linear combination on the recorded hints for all operand values within the bounds.",
             note="Trusted: engine encoding (validated per path), z3, Fermat axiom. Observation of constructed objects through a wrapper of LinComb.__init__ installed from outside (no source change).", ref="5/C04"),
 "C05": dict(level="model_checking", technique="symbolic execution (symtrace/z3): per-path SMT obligation 'traced value = the same Python expression on plain integers', and 'raising paths do not intersect the documented domain'",
             text="Bounded symbolic differential check against Python's own operator semantics: on every completed path the traced value equals the plain-integer expression for all operands within the bounds (mod-p congruence by polynomial normal form where products are involved), and no raising path intersects the documented domain. Genuine deviations are listed in known_findings.json with region predicates; anything outside them is a violation.",
             note="Trusted: engine encoding of Python int operators (validated per path against CPython), z3. Bounds: bitlength 4 (quick) / 4,8,16 (thorough); operands < 2^64 / 2^120; secret exponents and shift counts at n<=8. Python raising where the traced op returns (negative shift count) is recorded as an observation only.", ref="5/C05"),
 "C06": dict(level="model_checking", technique="exhaustive symbolic path enumeration (symtrace/z3): all feasible completed paths of a program must yield one canonical constraint system",
             text="Bounded symbolic model checking: the engine forks at every value-dependent Python branch of the traced code, so the set of completed paths (errors on, ignore_errors on invalid inputs, guard 0/1, nested guards) is exhaustive within the bounds; all of them must produce the identical canonical trace (variable counts and order, constraints with coefficients mod p, result wire expressions). Two differing paths yield two concrete inputs that are replayed.",
             note="Trusted: path feasibility decided by z3 (unknown is never pruned), canonicalisation of linear combinations. Bounds: catalogue programs and depth-2 compositions, bitlength 4 (quick) / 4,8 (thorough).", ref="5/C06"),
 "C02": dict(level="model_checking", technique="symbolic execution + SMT over the captured R1CS (symtrace/z3): operands fixed, all auxiliary wires universally quantified; query 'constraints hold and result differs' must be unsat",
             text="Bounded symbolic soundness check: for every completed honest path of a value-returning catalogue operation the emitted constraint system is translated to integer arithmetic with exact mod-p congruences; operand wires keep their (symbolic) values, every other wire is a free field element of the adversarial prover; z3 must refute 'all constraints hold and some result wire differs from the honest value (or a boolean-typed result is not 0/1)'. Second witnesses are validated in exact arithmetic and replayed against the real constraints. Known unsound gadgets (unchecked quotient, &|^ with constants) are listed with region predicates.",
             note="Trusted: z3, the integer encoding of field congruences, determinacy propagation (uses C01). Bounds: bitlength 4 / 4,8,16; operands < 2^64 / 2^120. Outside: << ** >> by a secret (solver does not finish).", ref="3, 5/C02"),
 "C03": dict(level="model_checking", technique="symbolic execution + SMT over the captured R1CS: 'rejected at run time => constraints unsatisfiable for every witness' and 'accepted => relation true and witness satisfies'",
             text="Bounded symbolic check of every assertion kind and boolean declaration: (a) on accepted paths the asserted relation holds and the recorded witness satisfies the constraints; (b) for every raising path the constraint structure emitted under ignore_errors, with all non-operand wires free, is refuted by z3 for all rejected operand values. Counterexamples are replayed (honest run raises, ignore_errors run's constraints satisfied by the adversarial witness).",
             note="Trusted: z3, integer encoding; structure for rejected operands taken from the ignore_errors run (value independence is C06). Bounds: bitlength 4 / 4,8,16, widths 1,2,n-1,n,n+1, operands < 2^64 / 2^120.", ref="5/C03"),
 "C07": dict(level="model_checking", technique="symbolic execution with a symbolic guard value (symtrace/z3): per-path SMT obligations for inertness under g=0 and equivalence with the unguarded run under g=1",
             text="Bounded symbolic check of every catalogue operation inside runtime.guarded(g) (also nested twice) with g symbolic: under a false guard no raising path is feasible because of operand values and the recorded witness satisfies all constraints; under a true guard outcome classes and values equal those of the unguarded exploration (path-pair queries), results stay uniquely determined and rejected assertions stay unprovable. Genuine deviations (division by zero / non-boolean value raising under a false guard) are recorded with region predicates.",
             note="Trusted: engine encoding, z3. Only runtime.guarded/add_guard regions (block API: C09). Bounds: bitlength 4 / 4,8, guard nesting 2, operands < 2^64 / 2^120.", ref="5/C07"),
 "C08": dict(level="model_checking", technique="bounded exhaustive symbolic execution of enter/leave/abort histories of guarded regions with symbolic condition values (symtrace/z3)",
             text="All region forests with up to 3 (quick) / 4 (thorough) regions, nesting 2 / 3, realised with runtime.guarded (normal exit and an exception at every statement position) and add_guard/restore_guard pairs, both initial error modes, are executed with symbolic condition values; on every feasible path the (guard, error-suppression, constant-one) triple after each region is identical to the one before, the guard value inside is the conjunction of the enclosing conditions and constants are multiples of the active guard.",
             note="Trusted: engine path enumeration (z3 feasibility), object identity observed in-process. Outside: exceptions escaping block-API regions; the guard WIRE being the product is C02 (secret & secret).", ref="5/C08"),
 "C15": dict(level="model_checking", technique="symbolic execution with a symbolic secret index (symtrace/z3): value = list reference, witness satisfies, one trace over all index paths, uniqueness and out-of-range unprovability by SMT over the captured R1CS",
             text="Bounded symbolic check of secret-index reads/writes (1-D lengths 1..3/4, 2x2, sequences of 2/3 operations, secret and constant cells): the five obligation families of C05 (value = If-chain list reference), C01, C06 (one canonical trace across every index path incl. out-of-range under ignore_errors), C02 (result unique) and C03 (out-of-range index raises and its constraints are unsatisfiable) are discharged for all cell and index values within the bounds.",
             note="Trusted: engine, z3, integer encoding of the R1CS. Constant cells are pairwise distinct objects (if_then_else short-circuits on identity).", ref="5/C15"),
 "C16": dict(level="model_checking", technique="symbolic execution (symtrace/z3) of to_bits/from_bits/check_positive/assert_positive at explicit widths and of the pack/unpack functions on symbolic plain and secret values; SMT obligations for round trip, rejection and enforced width",
             text="Bounded symbolic check: decomposition/recomposition at widths 1,2,3,n-1,n,n+1 returns the value for all 0<=v<2^w, rejects outside, and the width enforced in-circuit is the requested one (rejected => unsatisfiable); packer schemas (Bool, IntMod(m), List, Repeat, depth 2) round-trip symbolic plain and secret values, reject out-of-range plain values, report their true bit length, and unpack enforces value < m on both kinds of secret bit lists.",
             note="Trusted: engine, z3, integer encoding of the R1CS. Bounds: bitlength 4 (quick) / 4,8; values < 2^20.", ref="5/C16"),
}
NA_REASON = "check not built yet in this session (design in DESIGN.md section 5); will be claimed once its check exists"

checks = []
for p in props:
    pid = p["id"]
    if pid not in CHECKS:
        continue
    c = CHECKS[pid]
    checks.append(dict(property_id=pid, quick_cmd="./check %s --tier quick" % pid, thorough_cmd="./check %s --tier thorough" % pid,
                       evidence_file="evidence/%s.json" % pid, replay_cmd_template="./check %s --replay {path}" % pid, engine="symtrace",
                       level_claimed=dict(category=c["level"], text=c["text"], design_ref=c["ref"]), level_note=c["note"], technique=c["technique"]))
na = [dict(property_id=p["id"], reason=CHECKS.get(p["id"], {}).get("na", NA_REASON)) for p in props if p["id"] not in CHECKS]
man = dict(version=1,
           setup_cmd="python3-vt -c 'import z3; print(z3.get_version_string())' && /venv/bin/python -c 'import sys; print(sys.version)'",
           hooks=dict(guard="PYSNARK_VERIF", enable="no source hooks: observation points are reached through module namespaces at run time (DESIGN 6)",
                      baseline_off_cmd="cd /repo && /venv/bin/python -m pytest -ra -q -p no:cacheprovider --timeout=900 --continue-on-collection-errors",
                      source_commits=[], add_only=True),
           engines=[dict(name="symtrace", path="symtrace/", serves_properties=[c["property_id"] for c in checks],
                         kind_free_text="concolic/symbolic executor for the real pysnark Python code on z3 Int terms; SMT obligations per path; replay under /venv/bin/python")],
           checks=checks, not_applicable=na,
           notes="All checks: exit 0 = no violation on everything decided; exit 1 + VIOLATION line = replayed counterexample; exit 2 = harness error (engine could not model something / a model failed to replay). See DESIGN.md.")
json.dump(man, open(os.path.join(HERE, "MANIFEST.json"), "w"), indent=1)
print("checks:", [c["property_id"] for c in checks], "n/a:", len(na))
