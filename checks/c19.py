"""C19: the backend in use is the one the configuration names.
Part A: symbolic execution of runtime.py's selection statements over a symbolic configuration (engine).
Part B: the configurations that can be realised in this sandbox are run in subprocesses (also the replay path), plus the
interface completeness of every importable backend module."""
from . import cat_c19 as CAT19
from . import common as C
from .obsjob import run_obs_job
from .catjob import lookup
from .c19_rows import part_b

PID = "C19"


def jobs(tier):
    return [dict(name=e.name, entry=e.name, backend="none", cfg=dict(n=4, r=2, guard=None, bound=None), tier=tier,
                 catalogue="checks.cat_c19", pid=PID, weight=1, job_timeout=600) for e in CAT19.build(4, tier)]


def run_job(env, spec):
    return run_obs_job(PID, env, spec, lookup(spec), "checks.cat_c19")


def main(argv):
    tier = C.tier()
    rep = C.Report(PID)
    rep.functions |= {"pysnark/runtime.py: the top-level backend-selection statements (extracted by ast on every run)",
                      "process rows: name, module, field, fieldinverse*x=1 mod the reported modulus, interface completeness; for "
                      "libsnark/libsnarkgg also the proof-system family prove() calls and that the selected module received the trace",
                      "import closures and set_modulus calls of backendbellman/backendbulletproofs/backendgg (read from source)"}
    rep.bounds = dict(configuration="PYSNARK_BACKEND unset | each known name | an unknown name; every subset of pre-imported "
                                    "backend modules closed under their imports; every subset of loadable modules")
    rep.assumptions = ["importlib/sys.modules/os.environ are answered from the symbolic configuration; module import side effects are "
                       "the import closure and the set_modulus call read from the sources",
                       "get_ipython is undefined (not an IPython session)", "the libsnark extension is absent: the rows for the names libsnark/libsnarkgg run with a recording stand-in "
                       "(stubs_libsnark: real linear combinations and constraints over BN254, the zk_*/zkgg_* families only record "
                       "their calls); all other rows keep seeing libsnark as not installed"]
    for r in C.run_jobs("c19", jobs(tier)):
        rep.absorb(r)
    part_b(rep, tier, C.load_known(PID))
    return rep.finish("./check C19")
