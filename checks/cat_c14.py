"""C14 harnesses: fixed-point operations against exact scaled-integer arithmetic.
Inputs named x / y are REPRESENTATION integers for fixed-point operands (value = x / 2^r) and plain values for
integer/boolean secrets.  The reference is written on the scaled representations A, B of both operands."""
import operator as op
from .catalogue import Entry

FLOATS = {"f1": 1.5, "f2": -0.75, "f3": 2.0}
INTS = {"i1": 3, "i2": -3}


def mk(k, kind, nm):
    """operand object of the given kind and its scaled representation"""
    r = k.r
    if kind == "F":
        return k.F(nm), k.v(nm)
    if kind == "S":
        return k.S(nm), k.v(nm) * (1 << r)
    if kind == "B":
        return k.B(nm), k.v(nm) * (1 << r)
    if kind in INTS:
        return INTS[kind], INTS[kind] * (1 << r)
    if kind in FLOATS:
        sc = FLOATS[kind] * (1 << r)
        assert sc == int(sc), "constants are dyadic at the resolutions used"
        return FLOATS[kind], int(sc)
    raise KeyError(kind)


def ref_op(nm, A, B, r):
    one = 1 << r
    if nm == "add": return A + B
    if nm == "sub": return A - B
    if nm == "mul": return (A * B) // one
    if nm == "truediv": return (A * one) // B
    if nm == "floordiv": return (A // B) * one
    if nm == "mod": return A - (A // B) * B
    if nm == "lt": return A < B
    if nm == "le": return A <= B
    if nm == "gt": return A > B
    if nm == "ge": return A >= B
    if nm == "eq": return A == B
    if nm == "ne": return A != B
    raise KeyError(nm)


OPS = [("add", op.add), ("sub", op.sub), ("mul", op.mul), ("truediv", op.truediv), ("floordiv", op.floordiv),
       ("mod", op.mod), ("lt", op.lt), ("le", op.le), ("gt", op.gt), ("ge", op.ge), ("eq", op.eq), ("ne", op.ne)]


def binop_entry(nm, f, L, R):
    ins = tuple(x for x, kd in (("x", L), ("y", R)) if kd in ("F", "S", "B"))

    def fn(k):
        a, _ = mk(k, L, "x")
        b, _ = mk(k, R, "y")
        return f(a, b)

    def ref(k):
        r = k.r
        A = k.v("x") * (1 if L == "F" else (1 << r)) if L in ("F", "S", "B") else mk_const(L, r)
        B = k.v("y") * (1 if R == "F" else (1 << r)) if R in ("F", "S", "B") else mk_const(R, r)
        return ref_op(nm, A, B, r)
    assume = None
    if "B" in (L, R):
        assume = (lambda k: [((k.v(nmv) == 0) | (k.v(nmv) == 1)) for nmv, kd in (("x", L), ("y", R)) if kd == "B"])
    return Entry("fxp_%s_%s_%s" % (nm, L, R), fn, ins, ref=ref, dom=None, assume=assume,
                 tags={"fxp", nm, "L=" + L, "R=" + R} | ({"ret:bool"} if nm in ("lt", "le", "gt", "ge", "eq", "ne") else set()))


def mk_const(kind, r):
    if kind in INTS:
        return INTS[kind] * (1 << r)
    return int(FLOATS[kind] * (1 << r))


def unary_entries():
    ents = []
    ents.append(Entry("fxp_neg", lambda k: -k.F("x"), ("x",), ref=lambda k: -k.v("x"), tags={"fxp", "neg"}))
    ents.append(Entry("fxp_abs", lambda k: abs(k.F("x")), ("x",), ref=lambda k: abs(k.v("x")), tags={"fxp", "abs"}))
    ents.append(Entry("fxp_pos", lambda k: +k.F("x"), ("x",), ref=lambda k: k.v("x"), tags={"fxp"}))
    for c in (0, 1, 2):
        ents.append(Entry("fxp_lshift_%d" % c, (lambda k, c=c: k.F("x") << c), ("x",),
                          ref=(lambda k, c=c: k.v("x") << c), tags={"fxp", "lshift"}))
        ents.append(Entry("fxp_rshift_%d" % c, (lambda k, c=c: k.F("x") >> c), ("x",),
                          ref=(lambda k, c=c: k.v("x") >> c), tags={"fxp", "rshift"}))
    for c in (0, 1, 2, 3):
        ents.append(Entry("fxp_pow_%d" % c, (lambda k, c=c: k.F("x") ** c), ("x",),
                          ref=(lambda k, c=c: _pow_ref(k.v("x"), c, k.r)), tags={"fxp", "pow"}))
    # conversions
    ents.append(Entry("fxp_from_int_secret", lambda k: k.fx.LinCombFxp(k.S("x")), ("x",),
                      ref=lambda k: k.v("x") * (1 << k.r), tags={"fxp", "conv"}))
    ents.append(Entry("fxp_privval_int", lambda k: k.fx.PrivValFxp(k.v("x")), ("x",),
                      ref=lambda k: k.v("x") * (1 << k.r), tags={"fxp", "conv"}))
    ents.append(Entry("fxp_pubval_float", lambda k: k.fx.PubValFxp(1.25), (), ref=lambda k: int(1.25 * (1 << k.r)),
                      tags={"fxp", "conv"}))
    ents.append(Entry("fxp_ite", lambda k: _ite(k), ("c", "x", "y"),
                      ref=lambda k: k.v("y") + k.v("c") * (k.v("x") - k.v("y")),
                      assume=lambda k: [(k.v("c") == 0) | (k.v("c") == 1)], tags={"fxp", "sel"}))
    ents.append(Entry("fxp_ite_mixed", lambda k: _ite_mixed(k), ("c", "x", "y"),
                      ref=lambda k: k.v("y") * (1 << k.r) + k.v("c") * (k.v("x") - k.v("y") * (1 << k.r)),
                      assume=lambda k: [(k.v("c") == 0) | (k.v("c") == 1)], tags={"fxp", "sel"}))
    return ents


def _pow_ref(a, c, r):
    # x**0 = 1.0 ; x**c = x * x**(c-1) with the fixed-point product floor(a*b/2^r) applied right-to-left as the code does
    if c == 0:
        return 1 << r
    acc = a
    for _ in range(c - 1):
        acc = (a * acc) // (1 << r)
    return acc


def _ite(k):
    c = k.B("c"); x = k.F("x"); y = k.F("y")
    return k.br.if_then_else(c, x, y)


def _ite_mixed(k):
    c = k.B("c"); x = k.F("x"); y = k.S("y")
    return k.br.if_then_else(c, x, y)


def assert_entries():
    ents = []
    rels = [("lt", op.lt), ("le", op.le), ("eq", op.eq), ("ne", op.ne), ("gt", op.gt), ("ge", op.ge)]
    for nm, f in rels:
        def fn(k, nm=nm):
            x = k.F("x"); y = k.F("y")
            getattr(x, "assert_" + nm)(y)
            return [x, y]
        ents.append(Entry("fxp_assert_%s_FF" % nm, fn, ("x", "y"), ref=(lambda k, f=f: f(k.v("x"), k.v("y"))),
                          tags={"fxp", "assert"}))
        def fn2(k, nm=nm):
            x = k.F("x")
            getattr(x, "assert_" + nm)(1.5)
            return [x]
        ents.append(Entry("fxp_assert_%s_Ff" % nm, fn2, ("x",), ref=(lambda k, f=f: f(k.v("x"), int(1.5 * (1 << k.r)))),
                          tags={"fxp", "assert"}))
        def fn2i(k, nm=nm):
            x = k.F("x")
            getattr(x, "assert_" + nm)(-2)
            return [x]
        ents.append(Entry("fxp_assert_%s_Fi" % nm, fn2i, ("x",), ref=(lambda k, f=f: f(k.v("x"), -2 * (1 << k.r))),
                          tags={"fxp", "assert"}))
    for nm, f in rels:
        def fn3(k, nm=nm):
            x = k.F("x"); b = k.B("y")
            getattr(x, "assert_" + nm)(b)
            return [x, b]
        ents.append(Entry("fxp_assert_%s_FB" % nm, fn3, ("x", "y"),
                          ref=(lambda k, f=f: f(k.v("x"), k.v("y") * (1 << k.r))),
                          assume=(lambda k: [(k.v("y") == 0) | (k.v("y") == 1)]), tags={"fxp", "assert"}))

    def fr(k):
        x = k.F("x")
        x.assert_range(-1.5, 2)
        return [x]
    ents.append(Entry("fxp_assert_range", fr, ("x",),
                      ref=lambda k: (k.v("x") >= int(-1.5 * (1 << k.r))) & (k.v("x") < 2 * (1 << k.r)), tags={"fxp", "assert"}))
    return ents


def val_entries():
    def fn(k):
        x = k.F("x")
        v = x.val()
        return [("val() returns representation / 2^r", v * (1 << k.r) == k.v("x")),
                ("val() of a fixed-point value is a float whatever the value (an int would be traced as an integer by a later call)",
                 type(v).__name__ in ("float", "SymReal"))]
    return [Entry("fxp_val_obs", fn, ("x",), tags={"fxp", "obs"})]


def two_resolutions(k):
    """the same int / float constants used under two values of fixedpoint.resolution in one run"""
    fx = k.env.fx
    r0 = k.r
    obs = []
    try:
        for step, r in enumerate((r0, r0 + 2, r0)):
            fx.resolution = r
            x = fx.LinCombFxp(k.S("x"), False)        # representation x at the current resolution
            one = 1 << r
            xv = k.v("x")
            ops = [("x < 3", lambda: (x < 3).lc.value, (xv < 3 * one) * 1),
                   ("x >= 1.5", lambda: (x >= 1.5).lc.value, (xv >= (3 * one) // 2) * 1),
                   ("3 - x", lambda: (3 - x).lc.value, 3 * one - xv),
                   ("x * 1.5 (product rescaled by the resolution in effect)", lambda: (x * 1.5).lc.value, (xv * ((3 * one) // 2)) // one),
                   ("1.5 * x", lambda: (1.5 * x).lc.value, (xv * ((3 * one) // 2)) // one),
                   ("selection of the constant 3", lambda: k.br.if_then_else(x < 3, x, 3).lc.value, xv + (1 - (xv < 3 * one)) * (3 * one - xv))]
            for nm, f, want in ops:
                try:
                    got = f()
                except (ValueError, AssertionError):
                    continue                  # "... or the operation raises" (scaled operands beyond the bit length)
                obs.append(("step %d (resolution %d): %s agrees with the represented numbers" % (step, r, nm), ("eq", got, want)))
    finally:
        fx.resolution = r0
    return obs


def build(n=4, tier="quick"):
    ents = []
    ents.append(Entry("fxp_two_resolutions_obs", two_resolutions, ("x",), assume=(lambda k: [(k.v("x") > -64) & (k.v("x") < 64)]),
                      tags={"fxp", "obs", "resolution"}))
    kinds_other = ["F", "S", "B", "i1", "f1"] if tier == "quick" else ["F", "S", "B", "i1", "i2", "f1", "f2", "f3"]
    for nm, f in OPS:
        kinds_nm = list(kinds_other)
        if tier == "quick" and nm in ("mul", "truediv", "floordiv", "mod"):
            kinds_nm += ["i2", "f2"]             # negative constants: rounding direction and the sign of the remainder
        for R in kinds_nm:
            ents.append(binop_entry(nm, f, "F", R))
        for L in kinds_nm:
            if L != "F":
                ents.append(binop_entry(nm, f, L, "F"))
    ents += unary_entries()
    ents += assert_entries()
    ents += val_entries()
    nms = [e.name for e in ents]
    assert len(nms) == len(set(nms)), [x for x in nms if nms.count(x) > 1]
    return ents


def by_name(n=4, tier="thorough"):
    return {e.name: e for e in build(n, tier)}
