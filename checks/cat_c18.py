"""C18 harnesses (part A): the real exit-hook logic (atexitmaybe.ExitOverrider.exit / .excepthook / maybe_ and
runtime.final) executed on a symbolic termination event drawn from a model of what CPython does at shutdown.
The model rows are validated against the real interpreter by c18.py (part B)."""
from .catalogue import Entry

ROUTES = ("falloff", "sys_exit", "sys_exit_after_caught_exit0", "sys_exit_after_caught_exit3", "raise_systemexit", "exception", "keyboardinterrupt",
          "exception_falsy", "falloff_after_caught_exit0", "falloff_after_caught_exit3", "exception_after_caught_exit0", "keyboardinterrupt_after_caught_exit0")
KINDS = ("none", "int", "true", "false", "str_empty", "str_x", "float", "list")


def payload(k, kind):
    if kind == "none": return None
    if kind == "int": return k.v("x")
    if kind == "true": return True
    if kind == "false": return False
    if kind == "str_empty": return ""
    if kind == "str_x": return "boom"
    if kind == "float": return k.v("x") / 4           # dyadic float, exact
    if kind == "list": return []
    raise KeyError(kind)


def status_model(route, kind, c):
    """process exit status CPython produces (the trusted table; each row is replayed in a subprocess by part B)"""
    if route.startswith("falloff"):
        return 0
    if route.startswith("exception"):
        return 1
    if route.startswith("keyboardinterrupt"):
        return 130
    # sys.exit(c) and raise SystemExit(c) / exit(c): status is derived from the code object
    if kind == "none": return 0
    if kind == "int": return c            # documented range 0..255 (assumed by the harness)
    if kind == "true": return 1
    if kind == "false": return 0
    return 1                              # any other object is printed and the status is 1 (str, float, list, ...)


class Boom(Exception):
    pass


class EmptyReport(Exception):
    """an exception that is falsy (a container-style error with no entries): still an uncaught exception"""

    def __len__(self):
        return 0


def run_event(k, route, kind, autoprove, has_ps):
    rt, am = k.rt, k.env.am
    ov = am.override
    ov.exitcode, ov.exception = None, None
    saved = (ov._exit, ov._excepthook, rt.backend, rt.autoprove)
    counts = dict(prove=0, ps=0)

    class Backend:
        def prove(self):
            counts["prove"] += 1
    be = Backend()
    if has_ps:
        be.process_snark = lambda *a: counts.__setitem__("ps", counts["ps"] + 1)

    def fake_exit(code=0):
        raise SystemExit(code)
    hook_error = None
    try:
        ov._exit = fake_exit
        ov._excepthook = lambda *a: None
        rt.backend = be
        rt.autoprove = autoprove
        c = payload(k, kind)
        # ---- what the interpreter does for this way of terminating
        if "_after_caught_exit" in route and not route.startswith("sys_exit"):
            # an earlier sys.exit(k) was intercepted by the script; the run then ends in the way named first
            try:
                ov.exit(int(route[-1]))
            except SystemExit:
                pass
            route0 = route.split("_after_")[0]
        else:
            route0 = route
        if route == "sys_exit":
            try:
                ov.exit(c)                 # sys.exit is bound to the interposer
            except SystemExit:
                pass
        elif route.startswith("sys_exit_after_caught_exit"):
            # an earlier sys.exit(k) was intercepted by the script (try/except SystemExit); the run then ends with sys.exit(c)
            try:
                ov.exit(int(route[-1]))
            except SystemExit:
                pass
            try:
                ov.exit(c)
            except SystemExit:
                pass
        elif route == "raise_systemexit":
            pass                           # SystemExit raised directly: neither sys.exit nor sys.excepthook is involved
        elif route == "exception_falsy":
            ov.excepthook(EmptyReport, EmptyReport(), None)
        elif route0 == "exception":
            ov.excepthook(Boom, Boom("x"), None)
        elif route0 == "keyboardinterrupt":
            ov.excepthook(KeyboardInterrupt, KeyboardInterrupt(), None)
        # ---- atexit: the registered callback is maybe(final)
        try:
            am.maybe(rt.final)()
        except Exception as ex:
            hook_error = ex
        st = status_model(route, kind, c)
    finally:
        ov._exit, ov._excepthook, rt.backend, rt.autoprove = saved
        ov.exitcode, ov.exception = None, None
    want = (st == 0) & bool(autoprove) if not isinstance(st, int) else (st == 0 and autoprove)
    obs = [("the exit hook does not raise", hook_error is None),
           ("proving step runs exactly once iff status 0 and autoprove is on (status model: %s/%s)" % (route, kind),
            ("eq", counts["prove"], want * 1)),
           ("nothing is proved when autoprove is off", (counts["prove"] == 0) if not autoprove else True)]
    return obs


def build(n=4, tier="quick"):
    ents = []
    for route in ROUTES:
        kinds = KINDS if route in ("sys_exit", "raise_systemexit") else (
            ("none", "int", "str_x") if route.startswith("sys_exit_after") else ("none",))
        for kind in kinds:
            for ap in (True, False):
                for ps in (True, False):
                    ins = ("x",) if kind in ("int", "float") else ()
                    assume = None
                    if kind == "int":
                        assume = lambda k: [(k.v("x") >= 0) & (k.v("x") <= 255)]
                    elif kind == "float":
                        assume = lambda k: [(k.v("x") > -1024) & (k.v("x") < 1024)]
                    ents.append(Entry("exit_%s_%s_ap%d_ps%d" % (route, kind, ap, ps),
                                      (lambda k, route=route, kind=kind, ap=ap, ps=ps: run_event(k, route, kind, ap, ps)),
                                      ins, assume=assume, tags={"c18", route, kind}))
    return ents


def by_name(n=4, tier="thorough"):
    return {e.name: e for e in build(n, tier)}
