"""Observation harnesses: an entry's fn(k) returns a list of observations [(label, claim)], claim being
  bool / SymBool                 -- must be true
  ("eq", a, b)                   -- integers (plain or symbolic) must be equal
  ("cong", a, b)                 -- must be congruent modulo the field prime
The check proves every claim on every explored path; a refuted claim gives a model that is replayed by running the same
harness on plain integers (replay kind 'obs')."""
import z3

from symtrace import engine as E, harness as H, oblig as O
from .catjob import Job


class Obs(list):
    """what an observation harness returns (a list subclass so that flat() ignores nothing important)"""


def claim_term(env, c):
    """z3 Bool for a claim"""
    if type(c) is bool:
        return z3.BoolVal(c)
    if type(c) is E.SymBool:
        return c.t
    if type(c) is tuple and c[0] == "eq":
        return E.T(c[1]) == E.T(c[2])
    if type(c) is tuple and c[0] == "cong":
        return (E.T(c[1]) - E.T(c[2])) % env.P == 0
    raise E.Unsupported("bad claim %r" % (c,))


def claim_holds(env, c):
    if type(c) is tuple and c[0] == "eq":
        return c[1] == c[2]
    if type(c) is tuple and c[0] == "cong":
        return (c[1] - c[2]) % env.P == 0
    return bool(c)


def spot_failure(job, env, entry, t, label):
    """inputs of path t (pairwise distinct, > 1000 where the path allows) at which the claim `label` fails on a plain-integer
    run of the harness, or None"""
    from symtrace.concrete import run_concrete
    cache = t.extra.setdefault("spot", {})
    if "out" not in cache:
        ins = [v.t for v in job.vals.values()]
        spread = [ins[i] != ins[j] for i in range(len(ins)) for j in range(i)] + [v > 1000 + 7 * i for i, v in enumerate(ins)]
        st, m = H.solve(t.path.assume + t.path.pc, spread, 4000)
        if st != "sat":
            st, m = H.solve(t.path.assume + t.path.pc, [], 4000)
        cache["out"] = None
        if st == "sat":
            cache["inputs"] = H.model_inputs(m, job.vals)
            out = run_concrete(env, entry, job.cfg, cache["inputs"])
            if out["outcome"] == "ok":
                cache["out"] = {l: c for l, c in out["result"]}
    if cache["out"] is None or label not in cache["out"]:
        return None
    return None if claim_holds(env, cache["out"][label]) else cache["inputs"]


def concrete_fallback(job, env, entry, why):
    from symtrace.concrete import run_concrete, Kit
    names = list(entry.ins)
    P = env.P or (1 << 61) - 1
    cands = [lambda i: 1001 + 7 * i, lambda i: i, lambda i: 1, lambda i: -1 - i, lambda i: (1 << 20) + 3 * i, lambda i: P - 1 - i,
             lambda i: 0, lambda i: 2 + i]
    tried = 0
    for f in cands:
        inputs = {nm: f(i) for i, nm in enumerate(names)}
        if entry.assume is not None:
            try:
                if not all(bool(c) for c in entry.assume(Kit(env, dict(inputs), job.cfg.get("n", 4), job.cfg.get("r", 2)))):
                    continue
            except Exception:
                continue
        out = run_concrete(env, entry, job.cfg, inputs)
        tried += 1
        if out["outcome"] != "ok":
            continue
        for label, c in out["result"]:
            if not claim_holds(env, c):
                job.obligation("sat")
                job.finding("obs", "claim '%s' fails at the evaluation point %s" % (label, inputs),
                            dict(kind="obs", inputs=inputs, label=label))
                break
        else:
            job.obligation("unsat")
        if not names:
            break
    job.inconclusive("not encodable (%s): claims evaluated at %d fixed points only" % (why[:120], tried))
    return job.done()


def run_obs_job(pid, env, spec, entry, catmod, expect_raise=None, spot_points=True):
    job = Job(pid, env, spec, entry, catalogue_module=catmod)
    job.cfg["want_ref"] = False
    twin_done = False
    try:
        traces = list(job.explore(compare_result=False))
    except E.Unsupported as ex:
        # the code under test left the fragment the engine encodes (only seen on changed code): nothing is decided
        # symbolically; the claims are still evaluated on plain integers at fixed points, where a failure is a replayable
        # violation, and the job is reported INCONCLUSIVE otherwise
        return concrete_fallback(job, env, entry, "%s" % (ex,))
    for t in traces:
        pi = t.extra["idx"]
        facts = t.path.facts()
        if not t.path.ok:
            exc = t.path.exc
            if getattr(entry, "may_raise", None) and isinstance(exc, entry.may_raise):
                continue
            st, m = H.solve(facts, [], job.timeout)
            job.obligation("sat" if st == "sat" else st)
            if st == "sat":
                inputs = H.model_inputs(m, job.vals)
                job.finding("obs", "harness raised %r on %s" % (exc, inputs), dict(kind="obs", inputs=inputs, label="<raise>"),
                            facts=facts, goal=[], model=m)
            continue
        obs = t.result
        lin_facts = t.path.facts(linear_only=True)
        slicer = None
        nz = O.normaliser(env, t)
        for label, c in obs:
            if type(c) is tuple and c[0] == "cong" and nz.congruent(E.T(c[1]), E.T(c[2])):
                H.STATS.syntactic += 1
                job.obligation("syntactic")
                continue
            if type(c) is tuple and c[0] == "cong" and len(facts) > 600:
                # Poseidon-sized paths: when the normal forms differ the solver is not asked to compare two degree-5^68
                # polynomials; the claim is evaluated at a solver-chosen point instead (inputs distinct and large) by the
                # concrete replay -- a differing polynomial agrees there with probability < deg/p (Schwartz-Zippel)
                ins = [v.t for v in job.vals.values()]
                spread = [ins[i] != ins[j] for i in range(len(ins)) for j in range(i)] + [v > 1000 + 7 * i for i, v in enumerate(ins)]
                st, m = H.solve(t.path.assume + t.path.pc, spread, job.timeout)
                job.obligation("sat")
                if st == "sat":
                    inputs = H.model_inputs(m, job.vals)
                    f = job.finding("obs", "claim '%s': normal forms differ; evaluated at %s" % (label, inputs),
                                    dict(kind="obs", inputs=inputs, label=label))
                    if f is not None:
                        f["candidate"] = True
                else:
                    job.inconclusive("claim %s: normal forms differ and no evaluation point found" % label)
                continue
            if type(c) is tuple and c[0] == "cong" and t.path.prod_axiom_ids and job.vals:
                # normal forms differ on a path with non-linear definitions: before the solver is asked (which may not
                # return on such a query) the claim is evaluated on plain integers at a non-degenerate point of the path;
                # a failure there is a replayable violation
                bad = spot_failure(job, env, entry, t, label)
                if bad is not None:
                    job.obligation("sat")
                    job.finding("obs", "claim '%s' fails at the evaluation point %s" % (label, bad), dict(kind="obs", inputs=bad, label=label))
                    continue
            ct = claim_term(env, c)
            if z3.is_true(z3.simplify(ct)):
                H.STATS.syntactic += 1
                job.obligation("syntactic")
                continue
            # a subset of the facts is enough for an unsat answer: try without the non-linear product definitions first
            st, m = "unknown", None
            if len(facts) > 200:
                if slicer is None:
                    slicer = H.Slicer(lin_facts)
                for hops in (1, 3):
                    st, m = H.solve(slicer.slice(ct, hops), z3.Not(ct), job.timeout, label="%s %s: %s (slice %d)" % (pid, job.name, label, hops))
                    if st == "unsat":
                        break
            if st != "unsat" and t.path.prod_axiom_ids:
                st, m = H.solve(lin_facts, z3.Not(ct), job.timeout, label="%s %s: %s (linear facts)" % (pid, job.name, label))
            if st != "unsat":
                st, m = H.solve(facts, z3.Not(ct), job.timeout, label="%s %s: %s" % (pid, job.name, label))
            job.obligation(st)
            if st == "unknown":
                job.inconclusive("path %d claim %s: solver unknown" % (pi, label))
            elif st == "sat":
                inputs = H.model_inputs(m, job.vals)
                job.finding("obs", "claim '%s' fails on %s" % (label, inputs), dict(kind="obs", inputs=inputs, label=label),
                            facts=facts, goal=z3.Not(ct), model=m)
        if spot_points and t.path.ok and job.vals:
            # supplement (not the deciding step): run the harness on plain integers at a solver-chosen non-degenerate point
            # of this path (inputs pairwise distinct and > 1000 where the path allows) and evaluate every claim there.
            # Catches failures of claims that are only stated on concrete runs (e.g. "decoded witness satisfies decoded
            # constraints") and encoding-independent mistakes; any failure is by construction replayable.
            ins = [v.t for v in job.vals.values()]
            spread = [ins[i] != ins[j] for i in range(len(ins)) for j in range(i)] + [v > 1000 + 7 * i for i, v in enumerate(ins)]
            st, m = H.solve(t.path.assume + t.path.pc, spread, 4000)
            if st != "sat":
                st, m = H.solve(t.path.assume + t.path.pc, [], 4000)
            if st == "sat":
                inputs = H.model_inputs(m, job.vals)
                from symtrace.concrete import run_concrete
                out = run_concrete(env, entry, job.cfg, inputs)
                bad = None
                if out["outcome"] == "ok":
                    for label, c in out["result"]:
                        okc = (c[1] == c[2]) if (type(c) is tuple and c[0] == "eq") else (
                            ((c[1] - c[2]) % env.P == 0) if (type(c) is tuple and c[0] == "cong") else bool(c))
                        if not okc:
                            bad = label
                            break
                job.obligation("sat" if bad else "unsat")
                if bad:
                    job.finding("obs", "claim '%s' fails at the evaluation point %s" % (bad, inputs),
                                dict(kind="obs", inputs=inputs, label=bad))
        if not twin_done and obs:
            # vacuity twin: the negation of the last non-trivial claim must be refutable-or-satisfiable, i.e. the claim
            # is not vacuously true because the path facts are inconsistent
            # (for very large paths only the path condition is tested: the axioms are definitions of fresh symbols)
            st, _ = H.solve(facts if (len(facts) <= 600 and not job.spec.get("skip_tv")) else (t.path.assume + t.path.pc), [], job.timeout)
            job.twin(st == "sat")
            twin_done = True
        job.sample(dict(path=pi, claims=[l for l, _ in obs][:6], path_condition=[str(z3.simplify(c))[:100] for c in t.path.pc[:3]]))
    return job.done()
