#!/usr/bin/env python3
"""tools/keep_seed.py <seed dir> <name> <Cxx> [<Cyy> ...]
Confirm a seeded change (fresh scratch worktree: patch applies, suite passes with it, demo fails with / passes without),
run the named checks against it in /repo (apply, check, undo) and store it as /verif/seeded/<name>/."""
import json, os, shutil, subprocess, sys, time

VERIF = os.path.dirname(os.path.dirname(os.path.abspath(__file__)))


def sh(cmd, **kw):
    return subprocess.run(cmd, shell=True, capture_output=True, text=True, **kw)


def main():
    scratch = "--scratch" in sys.argv          # run the checks against a scratch worktree (VERIF_REPO) instead of /repo:
    args = [a for a in sys.argv[1:] if a != "--scratch"]   # several seeds can then be re-swept at once
    sdir, name, checks = args[0], args[1], args[2:]
    meta = json.load(open(os.path.join(sdir, "meta.json")))
    v = sh("%s/tools/verify_seed.sh %s" % (VERIF, sdir)).stdout.strip().splitlines()[-1]
    ok = "applies=yes" in v and "demo_without=0" in v and "demo_with=1" in v and "75 passed" in v
    results = {}
    if ok:
        if scratch:
            wt = "/tmp/ks/sweep_%s" % name
            sh("mkdir -p /tmp/ks; git -C /repo worktree remove --force %s; git -C /repo worktree add --detach %s HEAD" % (wt, wt))
            sh("git -C %s apply %s/patch.diff" % (wt, sdir))
            envp = "VERIF_REPO=%s VERIF_NPROC=%s " % (wt, os.environ.get("VERIF_NPROC", "4"))
        else:
            assert sh("git -C /repo status --porcelain --untracked-files=no").stdout.strip() == "", "/repo not clean"
            sh("git -C /repo apply %s/patch.diff" % sdir)
            envp = ""
        try:
            for c in checks:
                t0 = time.time()
                r = sh("cd %s && %s./check %s --tier quick" % (VERIF, envp, c))
                lines = [l for l in r.stdout.splitlines() if l.startswith("  ")]
                results[c] = dict(exit=r.returncode, violations=r.stdout.count("\nVIOLATION") + r.stdout.startswith("VIOLATION"),
                                  first=(lines[0].strip()[:260] if lines else ""), seconds=round(time.time() - t0, 1))
        finally:
            if scratch:
                sh("git -C /repo worktree remove --force %s" % wt)
            else:
                sh("git -C /repo checkout -- .")
    out = os.path.join(VERIF, "seeded", name)
    os.makedirs(out, exist_ok=True)
    if os.path.abspath(sdir) != os.path.abspath(out):
        shutil.copy(os.path.join(sdir, "patch.diff"), out)
        shutil.copy(os.path.join(sdir, "demo.py"), out)
    prev = meta.get("caught_by_other", [])
    m = dict(property=meta.get("property"), summary=meta.get("summary"), needs=meta.get("needs"), files=meta.get("files"),
             origin="written by a fresh sub-agent given only the property text and a scratch worktree",
             confirmed=dict(command="tools/verify_seed.sh (scratch worktree of /repo HEAD: git apply; pytest; demo with and without the patch)",
                            result=v, ok=ok, repo_head=sh("git -C /repo log --format=%h -1").stdout.strip()),
             checks_run={c: r for c, r in results.items()},
             applied_to=("a scratch worktree of /repo HEAD (VERIF_REPO)" if scratch else "/repo (git apply, checks, git checkout -- .)"),
             caught_by=[c for c, r in results.items() if r["exit"] == 1 and r["violations"] > 0])
    json.dump(m, open(os.path.join(out, "meta.json"), "w"), indent=1)
    print(name, "confirmed" if ok else "NOT CONFIRMED (%s)" % v, "caught_by=%s" % m["caught_by"],
          {c: (r["exit"], r["seconds"]) for c, r in results.items()})


if __name__ == "__main__":
    main()
