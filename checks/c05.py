"""C05: traced arithmetic agrees with Python semantics or raises; in the documented domain it does not raise."""
import z3

from symtrace import engine as E, harness as H, oblig as O
from symtrace.concrete import flat, lincomb_of, Kit
from . import catalogue as CAT
from . import common as C
from .catjob import lookup, Job
from .c01 import is_heavy

PID = "C05"


def jobs(tier):
    js = []
    ns = [4] if tier == "quick" else [4, 8, 16]
    for n in ns:
        ents = CAT.build(n, tier if n == 4 else "quick")
        bound = (1 << 64) if tier == "quick" else (1 << 120)
        for e in ents:
            if e.ref is None or "assert" in e.tags:
                continue
            heavy = is_heavy(e)
            if heavy and n > (4 if tier == "quick" else 8):
                continue
            if heavy and n > 4 and "pow" in e.tags and ("ss" in e.tags or "c=-3" in e.tags):
                continue          # symbolic base ** 8-bit secret exponent: 256 paths of degree-255 terms (stated bound: n = 4)
            b = bound
            if heavy and "pow" in e.tags and tier == "quick":
                b = 1 << 10          # symbolic base with a secret exponent: degree-15 terms, keep the quick tier quick
            js.append(dict(name="%s/n%d/plain" % (e.name, n), entry=e.name, backend="snarkjs",
                           cfg=dict(n=n, r=2, guard=None, bound=b), tier=tier, weight=(50 if heavy else 1) * n))
    from .c01 import PRELUDE_SUBSET
    for e in CAT.build(4, "quick"):
        if e.name in PRELUDE_SUBSET and e.ref is not None:
            for pre in (["false_region"], ["aborted_region"], ["self_first"]):
                js.append(dict(name="%s/n4/after-%s" % (e.name, pre[0]), entry=e.name, backend="snarkjs",
                               cfg=dict(n=4, r=2, guard=None, bound=(1 << 64), prelude=pre), tier=tier, weight=2))
    # error checking switched off (ignore_errors) on operands inside the documented domain: same values as with checking on
    for e in CAT.build(4, "quick"):
        if e.name in ("int_lt_ss", "int_le_ss", "int_gt_sc3", "int_ge_cs3", "int_abs", "int_floordiv_ss", "int_mod_sc3", "int_truediv_ss",
                      "int_rshift_sc3", "int_to_bits_default", "int_and_ss", "sel_ite_cmp", "arr_read_s2"):
            js.append(dict(name="%s/n4/plain+ignore" % e.name, entry=e.name, backend="snarkjs",
                           cfg=dict(n=4, r=2, guard=None, bound=(1 << 64), ignore=True), tier=tier, weight=2))
    # selection through the block API and lazy branches: the final values are the ones native control flow gives
    from . import cat_c09
    for e in cat_c09.build(8, tier):
        if "c09out" not in e.tags and e.tags & {"elif", "elif2", "elif_cmp", "lazy", "lazy_cmp_branches", "matrix", "nested"}:
            js.append(dict(name="%s/value" % e.name, entry=e.name, backend="snarkjs", catalogue="checks.cat_c09", analysis="obs",
                           cfg=dict(n=8, r=2, guard=None, bound=None), tier=tier, weight=2))
    js.append(dict(name="summaries/is_boolean_value+parse_boolean", entry=None, backend="snarkjs", cfg=dict(n=4),
                   tier=tier, kind="summaries", weight=1))
    return js


def leaf_value(o):
    lc = lincomb_of(o)
    return lc.value if lc is not None else o


def run_summaries(env, spec):
    """the two merged summaries installed by env.install_bool_summaries agree with the original functions on every
    integer (and bool) argument: explore original and summary on one symbolic integer, compare outcomes per path pair"""
    job = Job(PID, env, spec, CAT.Entry("summaries", None, ("v",)))
    LCB = env.bo.LinCombBool
    res = job.res
    H.STATS.__init__()
    for fname, orig, summ in (("is_boolean_value", env.orig_is_boolean_value, LCB.is_boolean_value.__func__),
                              ("parse_boolean", env.orig_parse_boolean, LCB.parse_boolean.__func__)):
        v = E.X("v")

        def outcome(f):
            def run():
                try:
                    return ("ret", f(LCB, v))
                except ValueError as ex:
                    return ("raise", None)
            return run
        po = E.ENG.explore(outcome(orig))
        ps = E.ENG.explore(outcome(summ))
        res["paths"] += len(po) + len(ps)
        for a in po:
            for b in ps:
                ka, va = a.out[1]
                kb, vb = b.out[1]
                differ = z3.BoolVal(True)
                if ka == kb:
                    if ka == "raise":
                        differ = z3.BoolVal(False)
                    else:
                        ta = E.T(va) if type(va) is not bool else z3.IntVal(int(va))
                        tb = E.T(vb) if type(vb) is not bool else z3.IntVal(int(vb))
                        differ = ta != tb
                st, m = H.solve(a.facts() + b.facts(), differ, job.timeout, label="summary %s" % fname)
                job.obligation(st)
                if st == "sat":
                    res["errors"].append("summary %s disagrees with the original at v=%s" % (fname, m.eval(v.t)))
                elif st == "unknown":
                    job.inconclusive("summary %s: unknown" % fname)
    res["distinct"].append(spec["name"])
    return job.done()


def run_job(env, spec, ref_in_body=False):
    if spec.get("kind") == "summaries":
        return run_summaries(env, spec)
    if spec.get("analysis") == "obs":
        from .obsjob import run_obs_job
        return run_obs_job(spec.get("pid", PID), env, spec, lookup(spec), spec.get("catalogue"))
    entry = lookup(spec)
    job = Job(spec.get("pid", PID), env, spec, entry, spec.get("catalogue", "checks.catalogue"))
    # the reference is evaluated per path afterwards (analysis mode, no forking).  Where the traced code did not fork on a
    # small operand the reference needs concretely (an exponent, a shift count) the job starts over with the reference
    # computed inside the exploration, which case-splits on that operand (0..64; larger values are cut)
    job.cfg["want_ref"] = ref_in_body
    kit = Kit(env, None, job.cfg["n"], job.cfg.get("r", 2))
    twin_done = False
    observations = 0
    for t in job.explore():
        pi = t.extra["idx"]
        facts = t.path.facts()
        E.ENG.enter_analysis(t.path)
        kit.vals = job.vals
        if t.path.ok:
            if not ref_in_body:
                try:
                    t.ref = ("ok", entry.ref(kit))
                except E.Unsupported as ex:
                    if "not determined by the path" in str(ex):
                        return run_job(env, spec, ref_in_body=True)
                    raise
                except Exception as ex:
                    t.ref = ("exc", ex)
            ref_defs = list(E.ENG.axioms)
            facts = facts + ref_defs
            lin_facts = t.path.facts(linear_only=True) + [a for a in ref_defs if a.get_id() not in E.ENG.prod_axiom_ids]
            if t.ref[0] != "ok":
                observations += 1           # Python raises where the traced operation returned: recorded, not judged
                continue
            if job.cfg.get("ignore"):
                # error checking off: nothing is claimed outside the documented domain (the library goes on with dummy
                # hints there by design); inside it the values are the ones of plain Python, as with checking on
                doms = []
                if entry.dom is not None:
                    d = entry.dom(kit)
                    if d is not None:
                        doms.append(H.T_bool(d))
                b = spec.get("ignore_dom_bits")
                if b:
                    doms += [z3.And(v.t > -(1 << b), v.t < (1 << b)) for v in job.vals.values()]
                if not doms:
                    continue
                facts = facts + doms
                lin_facts = lin_facts + doms
            got = [leaf_value(o) for o in flat(t.result)]
            want = [x for x in flat(t.ref[1])]
            if len(got) != len(want):
                # a different number of result values is a different result: reported with an input of this path
                st, m = H.solve(facts, [], job.timeout, label="C05 %s shape" % job.name)
                job.obligation("sat" if st == "sat" else st)
                if st == "sat":
                    inputs = H.model_inputs(m, job.vals)
                    job.finding("c05_value", "the operation returns %d values where Python gives %d on %s" % (len(got), len(want), inputs),
                                dict(inputs=inputs, shape=True))
                else:
                    job.res["errors"].append("%s: result shape %d vs reference %d" % (job.name, len(got), len(want)))
                continue
            nz = O.normaliser(env, t)
            for i, (g, w) in enumerate(zip(got, want)):
                if type(g) not in (E.SymInt, E.SymBool, int, bool):
                    job.res["errors"].append("%s: leaf %d has type %s" % (job.name, i, type(g).__name__))
                    continue
                gt, wt = E.T(g), E.T(w)
                if z3.eq(z3.simplify(gt - wt), z3.IntVal(0)):
                    H.STATS.syntactic += 1
                    job.obligation("syntactic")
                    continue
                cong = nz.congruent(gt, wt)
                use = facts
                goal = [gt != wt]
                if cong:
                    # congruent mod p by normal form (sound lemma): they differ only as representatives; the lemma makes
                    # the product definitions unnecessary, so the linear part of the facts suffices for unsat answers
                    lemma = (gt - wt) % env.P == 0
                    st, m = H.solve(lin_facts + [lemma], goal, job.timeout, label="C05 %s leaf %d (mod-p lemma)" % (job.name, i))
                    if st != "unsat":
                        st, m = H.solve(facts + [lemma], goal, job.timeout, label="C05 %s leaf %d representative" % (job.name, i))
                    use = facts + [lemma]
                else:
                    st, m = H.solve(facts, goal, job.timeout, label="C05 %s leaf %d value=python" % (job.name, i))
                job.obligation(st)
                if st == "unknown":
                    job.inconclusive("path %d leaf %d: solver unknown (%s)" % (pi, i, m))
                elif st == "sat":
                    inputs = H.model_inputs(m, job.vals)
                    job.finding("c05_value", "leaf %d: traced value %s, Python gives %s on %s" % (
                        i, m.eval(gt, model_completion=True), m.eval(wt, model_completion=True), inputs),
                        dict(inputs=inputs, idx=i), facts=(lin_facts + [lemma]) if cong else use, goal=gt != wt, model=m,
                        extra_ns=dict(val=gt, ref=wt))
            if not twin_done and got:
                st, _ = H.solve(facts, E.T(got[-1]) != E.T(want[-1]) + 1, job.timeout)
                job.twin(st == "sat")
                twin_done = True
            job.sample(dict(path=pi, leaves=len(got), path_condition=[str(z3.simplify(c))[:120] for c in t.path.pc[:4]]))
        else:
            # a raising path: must not intersect the documented domain
            if entry.dom is None:
                continue
            d = entry.dom(kit)
            if d is None:
                continue
            dt = H.T_bool(d)
            st, m = H.solve(facts, dt, job.timeout, label="C05 %s in-domain-raise" % job.name)
            job.obligation(st)
            if st == "unknown":
                job.inconclusive("path %d domain: solver unknown" % pi)
            elif st == "sat":
                inputs = H.model_inputs(m, job.vals)
                job.finding("c05_raise", "in-domain inputs %s raise %r" % (inputs, t.path.exc),
                            dict(inputs=inputs), facts=facts, goal=dt, model=m)
    boundary_points(env, job, entry)
    job.res["python_raises_traced_returns"] = observations
    return job.done()


BOUNDARY_VALUES = [(1 << 53) + 1, (1 << 63) + 12345, (1 << 64) - 1, (1 << 127) - 1]


def boundary_points(env, job, entry):
    """supplement (not the deciding step): the entry is run on plain integers at a few large operand values inside its domain
    (beyond a float's 53-bit mantissa, at 64 bits) and compared with its reference there.  The engine models Python floats
    as reals, so a detour through float arithmetic is exact for it but not for CPython; a failure here is replayable."""
    if entry.ref is None or not entry.ins or job.cfg.get("guard") is not None:
        return
    from symtrace.concrete import run_concrete
    for V in BOUNDARY_VALUES:
        inputs = {nm: V for nm in entry.ins}
        kit = Kit(env, dict(inputs), job.cfg.get("n", 4), job.cfg.get("r", 2))
        try:
            if entry.assume is not None and not all(bool(c) for c in entry.assume(kit)):
                continue
            if entry.dom is not None and not bool(entry.dom(kit)):
                continue
        except Exception:
            continue
        out = run_concrete(env, entry, dict(job.cfg, want_ref=True), inputs)
        if out["outcome"] != "ok":
            if entry.dom is not None and not job.cfg.get("ignore"):
                job.obligation("sat")
                job.finding("c05_raise", "in-domain inputs %s raise %r" % (inputs, out["exc"]), dict(inputs=inputs))
            continue
        if out["ref"] is None or out["ref"][0] != "ok":
            continue
        got = [leaf_value(o) for o in flat(out["result"])]
        want = list(flat(out["ref"][1]))
        bad = len(got) != len(want) or any(int(g) != int(w) for g, w in zip(got, want))
        job.obligation("sat" if bad else "unsat")
        if bad:
            job.finding("c05_value", "traced values %s, Python gives %s on %s" % (got[:4], want[:4], inputs),
                        dict(inputs=inputs, shape=(len(got) != len(want))))


def main(argv):
    tier = C.tier()
    rep = C.Report(PID)
    rep.functions |= {"pysnark.runtime.LinComb operators (+ - * / // % divmod ** << >> & | ^ ~ neg abs, comparisons, if_else)",
                      "pysnark.runtime.LinComb.check_zero/check_nonzero/check_positive/to_bits/from_bits",
                      "pysnark.boolean.LinCombBool operators, is_boolean_value, parse_boolean",
                      "pysnark.branching.if_then_else", "pysnark.array.Array.__getitem__/__setitem__"}
    rep.bounds = dict(bitlength=[4] if tier == "quick" else [4, 8, 16],
                      operand_magnitude="< 2^64" if tier == "quick" else "< 2^120",
                      secret_exponents_and_shift_counts="n=4 (quick), n<=8 (thorough)",
                      reference="the same Python expression on plain (symbolic) integers; domain = documented narrow reading")
    rep.assumptions = ["reference semantics = engine's encoding of Python int operators, validated per path against CPython",
                       "Python raising where the traced operation returns a value (e.g. negative shift count) is recorded "
                       "as an observation, not judged"]
    js = jobs(tier)
    if argv:
        js = [j for j in js if any(a in j["name"] for a in argv)]
    obs = 0
    for r in C.run_jobs("c05", js):
        rep.absorb(r)
        obs += r.get("python_raises_traced_returns", 0)
    rep.extra["python_raises_traced_returns_paths"] = obs
    return rep.finish("./check C05")
