"""C09: oblivious if/elif/else, while and for compute what native control flow computes."""
from . import cat_c09 as CAT09
from . import common as C
from . import c01, c06
from .obsjob import run_obs_job
from .catjob import lookup

PID = "C09"


def jobs(tier):
    js = []
    for e in CAT09.build(8, tier):
        if "c09out" in e.tags:
            continue            # wire-returning twins: used by C02 / C04 / C05
        base = dict(entry=e.name, backend="snarkjs", tier=tier, pid=PID, catalogue="checks.cat_c09", weight=2)
        cfg = dict(n=8, r=2, guard=None, bound=None)
        js.append(dict(base, name="%s/value" % e.name, analysis="obs", cfg=dict(cfg)))
        js.append(dict(base, name="%s/witness" % e.name, analysis="witness", cfg=dict(cfg)))
        c1 = dict(cfg, want_ref=False)
        if "forcheck" in e.tags:
            continue          # its harness catches the rejection of an oversized bound: not a "completing run" for C06 purposes
        js.append(dict(base, name="%s/trace" % e.name, analysis="trace", cfg=c1, cfgs=[c1], trace_results=False))
    return js


def run_job(env, spec):
    if spec["analysis"] == "obs":
        return run_obs_job(PID, env, spec, lookup(spec), "checks.cat_c09")
    return dict(witness=c01, trace=c06)[spec["analysis"]].run_job(env, spec)


def main(argv):
    tier = C.tier()
    rep = C.Report(PID)
    rep.functions |= {"pysnark.branching: BranchingValues, BranchContext/IfContext/WhileContext, _if/_elif/_else/_endif, _while/_breakif/_endwhile, "
                      "_range/ObliviousIterator/_endfor, if_then_else with callable branches", "pysnark.runtime.add_guard/restore_guard"}
    rep.bounds = dict(programs=sorted(CAT09.PROGRAMS), conditions="plain 0/1 secrets and comparison results", loops="<= 3 iterations",
                      values="|x| < 50, loop bounds 0..4", bitlength=8)
    rep.assumptions = ["contexts are passed explicitly (no frame inspection)"]
    js = jobs(tier)
    if argv:
        js = [j for j in js if any(a in j["name"] for a in argv)]
    for r in C.run_jobs("c09", js):
        rep.absorb(r)
    return rep.finish("./check C09")
