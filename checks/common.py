"""Shared driver code: job fan-out, known-finding carving, replay, evidence (DESIGN 6, 7)."""
import hashlib
import json
import multiprocessing as mp
import os
import re
import subprocess
import sys
import tempfile
import time
import traceback

VERIF = os.path.dirname(os.path.dirname(os.path.abspath(__file__)))
REPO = os.environ.get("VERIF_REPO", "/repo")
REPLAY_PY = os.environ.get("VERIF_REPLAY_PY", "/venv/bin/python")
EXIT_HARNESS = 2

LEVEL = "model_checking"


def tier():
    t = os.environ.get("VERIF_TIER", "quick")
    return t if t in ("quick", "thorough") else "quick"


def seed():
    try:
        return int(os.environ.get("VERIF_SEED", "0"))
    except ValueError:
        return 0


# ------------------------------------------------------------------------------------------ known findings

def load_known(pid):
    path = os.path.join(VERIF, "known_findings.json")
    if not os.path.exists(path):
        return []
    data = json.load(open(path))
    return [f for f in data.get("findings", []) if f["property"] == pid]


def known_for(known, harness, kind):
    out = []
    for f in known:
        if f.get("kind") not in (None, kind):
            continue
        if re.fullmatch(f["harness"], harness):
            out.append(f)
    return out


# ------------------------------------------------------------------------------------------ worker pool

_W = {}


def _worker_init(backend, check_module, symbolic=True):
    sys.path.insert(0, VERIF)
    os.environ["PYSNARK_BACKEND"] = backend
    sys.setrecursionlimit(20000)
    if hasattr(sys, "set_int_max_str_digits"):
        sys.set_int_max_str_digits(0)
    from symtrace import env as ENV
    if backend == "none":
        # harnesses that do not trace through a backend (C19): engine only
        from symtrace import engine
        _W["env"] = ENV.Env(backend_name="none", symbolic=True, P=None, rec=None, mods=[], rt=None, bo=None, fx=None, br=None,
                            ar=None, pk=None, la=None, be=None, gm=None, am=None, created=[], track=False)
    else:
        _W["env"] = ENV.load(backend, symbolic=symbolic)
    _W["mod"] = __import__("checks." + check_module, fromlist=["x"])


def _worker_run(spec):
    t0 = time.time()
    try:
        res = _W["mod"].run_job(_W["env"], spec)
        res.setdefault("error", None)
    except BaseException as ex:   # engine Unsupported etc: harness error, never a verdict
        res = dict(error="%s: %s" % (type(ex).__name__, str(ex)[:300]), trace=traceback.format_exc()[-1500:])
    res["spec"] = spec
    res["wall"] = round(time.time() - t0, 3)
    import gc
    gc.collect()
    return res


def _worker_loop(backend, check_module, conn):
    try:
        _worker_init(backend, check_module, True)
    except BaseException as ex:
        conn.send(("init-error", "%s: %s" % (type(ex).__name__, ex)))
        return
    conn.send(("ready", None))
    while True:
        try:
            spec = conn.recv()
        except EOFError:
            return
        if spec is None:
            return
        conn.send(("done", _worker_run(spec)))


class _Worker:
    def __init__(self, ctx, backend, check_module):
        self.parent, child = ctx.Pipe()
        self.proc = ctx.Process(target=_worker_loop, args=(backend, check_module, child), daemon=True)
        self.proc.start()
        child.close()
        self.job = None
        self.t0 = None
        self.ready = False
        self.jobs_done = 0

    def kill(self):
        try:
            self.proc.kill()
            self.proc.join(5)
        except Exception:
            pass


def run_jobs(check_module, jobs, nproc=None, progress=False, job_timeout=None):
    """jobs: list of spec dicts, each with key 'backend'.  Own process pool so that a job exceeding its wall limit
    (a solver call that ignores its timeout) is killed and reported as a harness error instead of hanging the check."""
    from multiprocessing.connection import wait as mpwait
    nproc = nproc or int(os.environ.get("VERIF_NPROC", "16"))
    job_timeout = job_timeout or int(os.environ.get("VERIF_JOB_TIMEOUT", "150" if tier() == "quick" else "1500"))
    by_backend = {}
    for j in jobs:
        by_backend.setdefault(j.get("backend", "snarkjs"), []).append(j)
    results = []
    ctx = mp.get_context("spawn")
    show = progress or os.environ.get("VERIF_PROGRESS")
    for backend, js in by_backend.items():
        queue = sorted(js, key=lambda s: -s.get("weight", 1))
        workers = [_Worker(ctx, backend, check_module) for _ in range(min(nproc, len(queue)))]
        pending = len(queue)
        n_timed_out = 0
        while pending:
            now = time.time()
            for w in list(workers):
                # circuit breaker: a change that makes symbolic execution diverge (an unbounded loop over a symbolic value)
                # would make every job run into its wall limit; after 24 such jobs the remaining ones get 30 s each
                limit = w.job.get("job_timeout", job_timeout) if w.job is not None else job_timeout
                if n_timed_out >= 24:
                    limit = min(limit, 30)
                if w.job is not None and now - w.t0 > limit:
                    n_timed_out += 1
                    results.append(dict(spec=w.job, wall=round(now - w.t0, 1), error=None, timed_out=True,
                                        inconclusive=["%s: job exceeded its wall limit of %ds and was stopped" % (
                                            w.job.get("name"), limit)]))
                    if show:
                        print("  job %s: TIMEOUT" % w.job.get("name"), file=sys.stderr, flush=True)
                    pending -= 1
                    w.kill()
                    workers.remove(w)
                    if queue:
                        workers.append(_Worker(ctx, backend, check_module))
            conns = [w.parent for w in workers]
            if not conns:
                break
            for c in mpwait(conns, timeout=1.0):
                w = next(x for x in workers if x.parent is c)
                try:
                    kind, payload = c.recv()
                except (EOFError, OSError):
                    if w.job is not None:
                        results.append(dict(spec=w.job, wall=0, error="worker died"))
                        pending -= 1
                    workers.remove(w)
                    if queue:
                        workers.append(_Worker(ctx, backend, check_module))
                    continue
                if kind == "init-error":
                    raise RuntimeError("worker initialisation failed: %s" % payload)
                if kind == "done":
                    results.append(payload)
                    pending -= 1
                    w.jobs_done += 1
                    if show:
                        print("  job %s: %s (%.1fs)" % (payload["spec"].get("name"), payload.get("error") or "ok",
                                                       payload["wall"]), file=sys.stderr, flush=True)
                    w.job = None
                if queue:
                    w.job = queue.pop(0)
                    w.t0 = time.time()
                    c.send(w.job)
                else:
                    w.job = None
                    c.send(None)
                    workers.remove(w)
        for w in workers:
            w.kill()
    return results


# ------------------------------------------------------------------------------------------ replay

def write_replay(pid, spec):
    os.makedirs(os.path.join(VERIF, "replays"), exist_ok=True)
    blob = json.dumps(spec, sort_keys=True, default=str)
    h = hashlib.sha1(blob.encode()).hexdigest()[:12]
    path = os.path.join(VERIF, "replays", "%s-%s.json" % (pid, h))
    with open(path, "w") as f:
        f.write(json.dumps(spec, indent=1, sort_keys=True, default=str))
    return path


def run_replay(path, timeout=300):
    """replay under the repository's own interpreter, no engine loaded.  returns (reproduced: bool|None, text)"""
    env = dict(os.environ)
    env["PYTHONPATH"] = VERIF + os.pathsep + REPO
    env.pop("PYSNARK_BACKEND", None)
    try:
        p = subprocess.run([REPLAY_PY, os.path.join(VERIF, "symtrace", "replay.py"), path], capture_output=True,
                           text=True, timeout=timeout, env=env, cwd=tempfile.gettempdir())
    except subprocess.TimeoutExpired:
        return None, "replay timed out"
    out = (p.stdout or "") + (p.stderr or "")
    if p.returncode == 0 and "REPRODUCED" in p.stdout:
        return True, out[-600:]
    if p.returncode == 3:
        return False, out[-600:]
    return None, out[-900:]


# ------------------------------------------------------------------------------------------ aggregation + evidence

class Report:
    def __init__(self, pid, level=LEVEL):
        self.pid = pid
        self.level = level
        self.t0 = time.time()
        self.obligations = 0
        self.discharged = 0
        self.inconclusive = []
        self.findings = []          # dicts with 'known' (id or None), 'replay' spec
        self.errors = []
        self.paths = 0
        self.harnesses = 0
        self.samples = []
        self.solver = dict(queries=0, unsat=0, sat=0, unknown=0, syntactic=0, solver_s=0.0,
                           feas_queries=0, feas_s=0.0, cross_checked=0, cross_agree=0, cross_inconclusive=0, cross_disagree=0)
        self.functions = set()
        self.bounds = {}
        self.assumptions = []
        self.tv = 0
        self.twins = dict(expected_sat=0, got_sat=0)
        self.extra = {}
        self.known_hits = {}
        self.distinct = set()

    def absorb(self, res):
        if res.get("error"):
            self.errors.append("%s: %s" % (res["spec"].get("name"), res["error"]))
            if res.get("trace"):
                self.errors.append(res["trace"])
            return
        self.harnesses += 1
        self.paths += res.get("paths", 0)
        self.obligations += res.get("obligations", 0)
        self.discharged += res.get("discharged", 0)
        self.inconclusive += res.get("inconclusive", [])
        self.findings += res.get("findings", [])
        self.tv += res.get("tv", 0)
        for k, v in res.get("solver", {}).items():
            self.solver[k] = round(self.solver.get(k, 0) + v, 3)
        tw = res.get("twins", {})
        for k in self.twins:
            self.twins[k] += tw.get(k, 0)
        for s in res.get("samples", []):
            if len(self.samples) < 12:
                self.samples.append(s)
        for d in res.get("distinct", []):
            self.distinct.add(d)
        self.errors += res.get("errors", [])
        for k in ("uncertain_paths", "tv_skipped"):
            if res.get(k):
                self.extra[k] = self.extra.get(k, 0) + res[k]

    def finish(self, argv_desc, extra_cov=None):
        """replay findings, print verdict lines, write evidence.  returns exit code"""
        pid = self.pid
        violations = 0
        harness_err = bool(self.errors)
        known_printed = set()
        replayed = 0
        # group: one replay per distinct (known id) for known findings, every new one individually
        max_new = int(os.environ.get("VERIF_MAX_REPLAYS", "12"))
        skipped = 0
        for f in self.findings:
            spec = f["replay"]
            spec["property"] = pid
            kid = f.get("known")
            if kid is not None and kid in known_printed:
                continue
            if kid is None and violations >= max_new:
                skipped += 1            # enough counterexamples replayed; the rest are counted only
                continue
            path = write_replay(pid, spec)
            ok, text = run_replay(path)
            replayed += 1
            if ok is True:
                if kid is not None:
                    known_printed.add(kid)
                    print("KNOWN-FINDING: property=%s %s [%s; reconfirmed by %s]" % (pid, f.get("what", kid), kid,
                                                                                   os.path.relpath(path, VERIF)))
                    try:
                        os.remove(path)
                    except OSError:
                        pass
                else:
                    violations += 1
                    print("VIOLATION property=%s replay=%s" % (pid, path))
                    print("  %s" % f.get("what", ""))
            elif f.get("candidate") and ok is False:
                # a candidate produced by point evaluation that the real code does not confirm: undecided, not an error
                self.inconclusive.append("%s: candidate not confirmed at the evaluation point" % f.get("what"))
            else:
                harness_err = True
                self.errors.append("model did not replay (%s): %s :: %s" % (f.get("what"), path, text.strip()[-400:]))
        if skipped:
            print("(%d further findings not replayed after the first %d reproduced violations)" % (skipped, max_new))
        for msg in self.inconclusive[:20]:
            print("INCONCLUSIVE property=%s %s" % (pid, msg))
        for e in self.errors[:20]:
            print("HARNESS-ERROR property=%s %s" % (pid, e), file=sys.stderr)
        wall = time.time() - self.t0
        cov = dict(
            states=max(self.paths, 1), transitions=max(self.obligations, 1),
            traces_validated_against_impl=self.tv,
            samples=self.samples or [dict(note="no samples recorded")],
            obligations=self.obligations, discharged=self.discharged,
            inconclusive=len(self.inconclusive),
            evaluations=max(self.obligations, 1), distinct_nontrivial=max(len(self.distinct), 2),
            rule="one obligation = one solver query (or syntactic normal-form discharge) on one explored path of one "
                 "harness; distinct = distinct (harness, configuration) pairs with at least one symbolic path",
            harnesses=self.harnesses, paths=self.paths,
            solver=self.solver, functions_encoded=sorted(self.functions), bounds=self.bounds,
            vacuity_twins=self.twins, known_findings_reconfirmed=sorted(known_printed),
            replays_run=replayed, harness_errors=len(self.errors),
            checker_cmd=argv_desc, exhaustive=False,
            explanation="symbolic execution of the real pysnark functions (symtrace engine, z3) within the stated bounds",
        )
        if extra_cov:
            cov.update(extra_cov)
        cov.update(self.extra)
        ev = dict(property_id=pid, tier=tier(), seed=seed(), level=self.level, coverage=cov,
                  assumptions=self.assumptions, wall_s=round(wall, 2), violations=violations)
        # evidence/<id>.json describes a complete run of the registered command against the repository itself; runs with name
        # filters, and runs against another tree (VERIF_REPO pointing at a scratch worktree with a seeded change applied,
        # which is how the stored changes are re-swept) write to evidence_scratch/ instead.  A `vp run` snapshot has its own
        # /verif and its own evidence directory, so it is not affected.
        in_snapshot = "/.vp/runs/" in VERIF
        scratch = os.environ.get("VERIF_PARTIAL_RUN") == "1" or (REPO != "/repo" and not in_snapshot)
        evdir = os.path.join(VERIF, "evidence_scratch" if scratch else "evidence")
        os.makedirs(evdir, exist_ok=True)
        with open(os.path.join(evdir, pid + ".json"), "w") as f:
            json.dump(ev, f, indent=1, default=str)
        print("%s %s: harnesses=%d paths=%d obligations=%d discharged=%d inconclusive=%d findings=%d (known=%d) "
              "violations=%d errors=%d wall=%.1fs" % (pid, tier(), self.harnesses, self.paths, self.obligations,
                                                      self.discharged, len(self.inconclusive), len(self.findings),
                                                      len(known_printed), violations, len(self.errors), wall))
        if violations:
            return 1
        if harness_err:
            return EXIT_HARNESS
        # inconclusive obligations are printed and recorded (obligations != discharged) but are neither a violation
        # nor a harness error: exit 0 means "no violation on everything that was decided"
        return 0
