"""C04: every reported value is congruent (mod p) to its wire expression on the recorded witness -- for the returned
objects AND every intermediate LinComb constructed during the run, guarded or not, error checking on or off."""
import z3

from symtrace import engine as E, harness as H, oblig as O
from . import catalogue as CAT
from . import common as C
from .catjob import lookup, Job
from .c01 import is_heavy, is_very_heavy

PID = "C04"


def jobs(tier):
    js = []
    ns = [4] if tier == "quick" else [4, 8]
    for n in ns:
        ents = CAT.build(n, tier if n == 4 else "quick")
        bound = (1 << 64) if tier == "quick" else None
        for e in ents:
            heavy = is_heavy(e)
            if n > 4 and is_very_heavy(e):
                continue            # does not finish at n=8 within the 1500 s job limit: stated bound n = 4
            modes = [dict(guard=None), dict(guard="sym"), dict(guard=None, ignore=True)]
            if tier == "thorough" and n == 4:
                modes += [dict(guard="sym", ignore=True)]
            if ("comp" in e.tags or "sel" in e.tags or "truediv" in e.tags) and n == 4:
                modes.append(dict(guard=("nest", 2)))
            for m in modes:
                if heavy and (m.get("guard") is not None or m.get("ignore")) and n > 4:
                    continue
                if is_very_heavy(e) and tier == "quick" and (m.get("guard") is not None or m.get("ignore")):
                    continue
                cfg = dict(n=n, r=2, bound=bound, track_all=True)
                cfg.update(m)
                from .catjob import gtag
                js.append(dict(name="%s/n%d/%s" % (e.name, n, gtag(cfg)), entry=e.name, backend="snarkjs", cfg=cfg,
                               tier=tier, weight=(50 if heavy else 1) * n))
    from .c01 import PRELUDE_SUBSET
    for e in CAT.build(4, "quick"):
        if e.name in PRELUDE_SUBSET:
            for pre in (["false_region"], ["aborted_region"], ["self_first"]):
                cfg = dict(n=4, r=2, bound=(1 << 64), track_all=True, guard=None, prelude=pre)
                js.append(dict(name="%s/n4/after-%s" % (e.name, pre[0]), entry=e.name, backend="snarkjs", cfg=cfg, tier=tier, weight=2))
            for pre in (["false_region"], ["true_region"], ["aborted_region"]):
                cfg = dict(n=4, r=2, bound=(1 << 64), track_all=True, guard="sym", inner_prelude=pre)
                js.append(dict(name="%s/n4/guard-inside-after-%s" % (e.name, pre[0]), entry=e.name, backend="snarkjs", cfg=cfg,
                               tier=tier, weight=3))
    # fixed-point wrappers: value vs wire for powers, products and quotients (negative operands included)
    from . import cat_c14
    for e in cat_c14.build(8, "quick"):
        if e.tags & {"pow", "mul", "truediv", "neg", "abs"} and "assert" not in e.tags and "obs" not in e.tags:
            cfg = dict(n=8, r=2, bound=(1 << 30), track_all=True, guard=None)
            js.append(dict(name="%s/n8r2/plain" % e.name, entry=e.name, backend="snarkjs", catalogue="checks.cat_c14", cfg=cfg,
                           tier=tier, weight=2))
    return js


def run_job(env, spec):
    entry = lookup(spec)
    job = Job(spec.get("pid", PID), env, spec, entry, spec.get("catalogue", "checks.catalogue"))
    job.cfg["want_ref"] = False
    twin_done = False
    for t in job.explore():
        if not t.path.ok:
            continue
        pi = t.extra["idx"]
        obs = O.c04_obligations(env, t, job.timeout, label=job.name)
        for ob in obs:
            job.obligation(ob["status"])
            if ob["status"] == "unknown":
                job.inconclusive("path %d object %d: solver unknown (%s)" % (pi, ob["idx"], ob.get("reason")))
            elif ob["status"] == "sat":
                inputs = H.model_inputs(ob["model"], job.vals)
                job.finding("c04", "object %d reports a value not congruent to its wire expression on %s" % (ob["idx"], inputs),
                            dict(inputs=inputs, idx=ob["idx"]), facts=t.path.facts(), goal=ob["term"] % env.P != 0,
                            model=ob["model"])
        if not twin_done and obs:
            # vacuity twin: value+1 must be refutable
            pubt, privt = H.wire_terms(t)
            objs = O.result_objects(t)
            if objs:
                lc = objs[-1][1]
                goal = (E.T(lc.value) + 1 - H.ev(lc.lc.lc, pubt, privt)) % env.P != 0
                fs = t.path.facts()
                if len(fs) > 600:
                    fs = H.Slicer(t.path.facts(linear_only=True)).slice(goal, 1)
                st, _ = H.solve(fs, goal, job.timeout)
                job.twin(st == "sat")
                twin_done = True
        if obs:
            job.sample(dict(path=pi, objects=len(obs), statuses=[o["status"] for o in obs][:8],
                            path_condition=[str(z3.simplify(c))[:120] for c in t.path.pc[:4]]))
    return job.done()


def main(argv):
    tier = C.tier()
    rep = C.Report(PID)
    rep.functions |= {"pysnark.runtime.LinComb.__init__ (observation of every constructed object)",
                      "pysnark.runtime.LinComb.* operators/assertions", "pysnark.boolean.LinCombBool.*",
                      "pysnark.branching.if_then_else", "pysnark.array.Array", "pysnark.runtime.guarded/add_guard"}
    rep.bounds = dict(bitlength=[4] if tier == "quick" else [4, 8], modes=["plain", "guard g in {0,1}", "ignore_errors",
                      "nested guards (depth 2) for compositions/selection/division"],
                      operand_magnitude="< 2^64" if tier == "quick" else "unbounded")
    rep.assumptions = ["Fermat axiom for field inverses", "guard values 0/1", "fixed point: C14; hashes: C20"]
    js = jobs(tier)
    if argv:
        js = [j for j in js if any(a in j["name"] for a in argv)]
    for r in C.run_jobs("c04", js):
        rep.absorb(r)
    return rep.finish("./check C04")
