"""C19 harnesses (part A): the backend-selection statements of runtime.py (everything before the first def, taken
from /repo by ast on every run) executed in a namespace whose sys.modules, os.environ and importlib.import_module are
answered from a symbolic configuration."""
import ast
import os
from .catalogue import Entry

REPO = os.environ.get("VERIF_REPO", "/repo")
FIELDS = {"bn254": 21888242871839275222246405745257275088548364400416034343698204186575808495617,
          "bls12-381": 52435875175126190479447740508185965837690552500527637822603658699938581184513,
          "curve25519": 7237005577332262213973186563042994240857116359379907606001950938285454250989}
FIELD_OF_NAME = {"zkinterface": "bn254", "zkifbellman": "bls12-381", "zkifbulletproofs": "curve25519", "snarkjs": "bn254",
                 "qaptools": "bn254", "libsnark": "bn254", "libsnarkgg": "bn254", "nobackend": None}


def selection_prefix():
    src = open(os.path.join(REPO, "pysnark", "runtime.py")).read()
    tree = ast.parse(src)
    body = []
    for st in tree.body:
        if isinstance(st, (ast.FunctionDef, ast.ClassDef)):
            break
        if isinstance(st, ast.Import) and all(a.name in ("importlib", "os", "sys") for a in st.names):
            continue
        if isinstance(st, ast.Expr) and isinstance(getattr(st, "value", None), ast.Constant):
            continue        # docstring-like string statements
        if isinstance(st, ast.Assign) and any(getattr(t, "id", "") in ("_ignore_errors",) for t in st.targets):
            break
        body.append(st)
    return compile(ast.Module(body=body, type_ignores=[]), "runtime.py<selection>", "exec")


def import_closure():
    """backend module -> other backend modules its source imports (so that they are in sys.modules too), and the
    modulus it sets, read from the sources in /repo"""
    mods = {"pysnark.zkinterface.backendbellman": "zkinterface/backendbellman.py",
            "pysnark.zkinterface.backendbulletproofs": "zkinterface/backendbulletproofs.py",
            "pysnark.libsnark.backendgg": "libsnark/backendgg.py"}
    out = {}
    for m, f in mods.items():
        src = open(os.path.join(REPO, "pysnark", f)).read()
        tree = ast.parse(src)
        deps, modulus = set(), None
        pkg = m.rsplit(".", 1)[0]
        for st in ast.walk(tree):
            if isinstance(st, ast.ImportFrom):
                name = st.module if st.level == 0 else (pkg + ("." + st.module if st.module else ""))
                deps.add(name)
            elif isinstance(st, ast.Import):
                for a in st.names:
                    deps.add(a.name)
            elif isinstance(st, ast.Call) and getattr(st.func, "id", getattr(st.func, "attr", "")) == "set_modulus":
                if st.args and isinstance(st.args[0], ast.Constant):
                    modulus = st.args[0].value
        out[m] = (sorted(d for d in deps if d.startswith("pysnark.")), modulus)
    return out


class FakeModule:
    def __init__(self, name):
        self.__name__ = name

    def __repr__(self):
        return "<backend module %s>" % self.__name__


class SymName:
    """value of PYSNARK_BACKEND: equal to the known name number `code` (or to no known name)"""

    def __init__(self, k, code, names):
        self.k, self.code, self.names = k, code, names

    def __eq__(self, other):
        if other in self.names:
            return self.code == self.names.index(other)
        return False

    def __radd__(self, other):
        return other + "<PYSNARK_BACKEND>"

    def __add__(self, other):
        return "<PYSNARK_BACKEND>" + other
    __hash__ = None


def run_selection(k):
    code = selection_prefix()
    closure = import_closure()
    # configuration: env code e in [-1 .. N] (-1 unset, N = an unknown name), pre-imported bits, loadable bits
    ns_probe = {}
    e = k.v("e")
    printed = []
    imported = []
    names_holder = {}

    class Env:
        def __contains__(s, key):
            return bool(e != -1) if key == "PYSNARK_BACKEND" else False

        def __getitem__(s, key):
            if key != "PYSNARK_BACKEND":
                raise KeyError(key)
            return SymName(k, e, names_holder["names"])

    class Modules:
        def __contains__(s, key):
            i = names_holder["mods"].index(key) if key in names_holder["mods"] else None
            if i is None:
                return False
            return bool(k.v("p%d" % i) == 1)

        def __getitem__(s, key):
            return FakeModule(key)

    class Importlib:
        @staticmethod
        def import_module(name):
            i = names_holder["mods"].index(name)
            if bool(k.v("l%d" % i) == 1):
                imported.append(name)
                return FakeModule(name)
            raise ImportError("cannot load " + name)

    class Sys:
        modules = Modules()

    class Os:
        environ = Env()
    # the backends table is defined by the prefix itself: run it once up to the table to learn names (concrete)
    ns = {"sys": Sys, "os": Os, "importlib": Importlib, "print": lambda *a, **kw: printed.append(" ".join(str(x) for x in a)),
          "__name__": "pysnark.runtime"}
    tbl = [(n, m) for n, m in _backends_table()]
    names_holder["names"] = [n for n, _ in tbl]
    names_holder["mods"] = [m for _, m in tbl]
    raised = None
    try:
        exec(code, ns)
    except ImportError as ex:
        raised = ex
    except NameError as ex:
        raised = ex
    name, mod = ns.get("backend_name"), ns.get("backend")
    N = len(tbl)
    mods = names_holder["mods"]
    # the specification consults the configuration lazily, like the code (no fork on bits that cannot matter)
    pre = lambda i: bool(k.v("p%d" % i) == 1)
    load = lambda i: bool(k.v("l%d" % i) == 1)
    exp_name, exp_mod, exp_raise, exp_unknown_msg = None, None, False, False
    first = None
    for i in range(N):
        if pre(i):
            first = i
            break
    cands = None
    if first is not None:
        # the backend the user imported: a pre-imported module that no other pre-imported module merely drags in through
        # its own imports (several unrelated pre-imported backends: the property does not say which; any of them is accepted)
        allpre = [j for j in range(N) if pre(j)]
        dragged = set()
        for j in allpre:
            if mods[j] in closure:
                dragged |= set(closure[mods[j]][0])
        cands = [j for j in allpre if mods[j] not in dragged] or allpre
        exp_name, exp_mod = tbl[cands[0]]
    else:
        ev = None
        for i in range(-1, N + 1):
            if bool(e == i):
                ev = i
                break
        if 0 <= ev < N:
            if load(ev):
                exp_name, exp_mod = tbl[ev]
            else:
                exp_raise = True
        else:
            exp_unknown_msg = (ev == N)
            for i in range(N):
                if load(i):
                    exp_name, exp_mod = tbl[i]
                    break
    obs = []
    if exp_raise:
        obs.append(("a known backend named in PYSNARK_BACKEND that cannot be loaded fails loudly", raised is not None))
        return obs
    obs.append(("selection does not raise", raised is None))
    obs.append(("selected backend name is the one the configuration names (pre-import > environment > auto-detect): expected %s" % exp_name,
                name == exp_name if cands is None else name in [tbl[j][0] for j in cands]))
    obs.append(("module receiving the constraints is that backend's module: expected %s" % exp_mod,
                (getattr(mod, "__name__", None) == exp_mod) if cands is None else
                (name, getattr(mod, "__name__", None)) in [tbl[j] for j in cands]))
    if exp_unknown_msg:
        # (any message counts: the wording is not part of the property)
        obs.append(("an unknown backend name is reported before falling back", len(printed) > 0))
    # field in effect: the set_modulus executed by a pre-imported or loaded derived module
    if name in FIELD_OF_NAME and (name == "zkinterface" or str(name).startswith("zkif")):
        zkd = [j for j in range(N) if mods[j] in closure and closure[mods[j]][1] is not None]
        setters = [mods[j] for j in zkd if (first is not None and pre(j))] + [m for m in imported if m in closure and closure[m][1] is not None]
        if len({closure[m][1] for m in setters}) <= 1:
            eff = closure[setters[0]][1] if setters else FIELDS["bn254"]
            obs.append(("reported name %s identifies the field in effect" % name, eff == FIELDS[FIELD_OF_NAME[name]]))
    return obs


def _backends_table():
    src = open(os.path.join(REPO, "pysnark", "runtime.py")).read()
    tree = ast.parse(src)
    for st in tree.body:
        if isinstance(st, ast.Assign) and getattr(st.targets[0], "id", "") == "backends":
            return [tuple(x) for x in ast.literal_eval(st.value)]
    raise ValueError("no backends table in runtime.py")


def build(n=4, tier="quick"):
    N = len(_backends_table())
    closure = import_closure()
    mods = [m for _, m in _backends_table()]

    def assume(k):
        cs = [(k.v("e") >= -1) & (k.v("e") <= N)]
        for i in range(N):
            cs.append((k.v("p%d" % i) == 0) | (k.v("p%d" % i) == 1))
            cs.append((k.v("l%d" % i) == 0) | (k.v("l%d" % i) == 1))
        # pysnark.nobackend is a dependency-free module of the package itself: always loadable
        if "pysnark.nobackend" in mods:
            cs.append(k.v("l%d" % mods.index("pysnark.nobackend")) == 1)
        # import closure: a pre-imported derived module brings its base module into sys.modules
        for m, (deps, _) in closure.items():
            if m in mods:
                for d in deps:
                    if d in mods:
                        cs.append((k.v("p%d" % mods.index(m)) == 0) | (k.v("p%d" % mods.index(d)) == 1))
        return cs
    ins = ("e",) + tuple("p%d" % i for i in range(N)) + tuple("l%d" % i for i in range(N))
    return [Entry("selection", run_selection, ins, assume=assume, tags={"c19"})]


def by_name(n=4, tier="thorough"):
    return {e.name: e for e in build(n, tier)}
