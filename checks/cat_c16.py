"""C16 harnesses: bit decomposition at a requested width and the packers of pysnark.pack."""
from .catalogue import Entry, make_widths, make_asserts, fits, nonneg_bits


def schemas(k):
    pk = k.pk
    n = k.n
    return {
        "bool": (pk.PackBool(), ["b"]),
        "int2": (pk.PackIntMod(2), [2]),
        "int3": (pk.PackIntMod(3), [3]),
        "int5": (pk.PackIntMod(5), [5]),
        "int8": (pk.PackIntMod(8), [8]),
        "int17": (pk.PackIntMod((1 << n) + 1), [(1 << n) + 1]),
        "int64": (pk.PackIntMod(1 << 64), [1 << 64]),        # wider than a float's 53-bit mantissa
        "list_b_i3": (pk.PackList([pk.PackBool(), pk.PackIntMod(3)]), ["b", 3]),
        "rep_i3x2": (pk.PackRepeat(pk.PackIntMod(3), 2), [3, 3]),
        "list_i5_repb2": (pk.PackList([pk.PackIntMod(5), pk.PackRepeat(pk.PackBool(), 2)]), [5, "b", "b"]),
        "rep_list_x2": (pk.PackRepeat(pk.PackList([pk.PackBool(), pk.PackIntMod(3)]), 2), ["b", 3, "b", 3]),
        "list_i1_b": (pk.PackList([pk.PackIntMod(1), pk.PackBool()]), [1, "b"]),      # a bounded integer with one value: a zero-width field
    }

SHAPES = {   # how the flat leaves v0.. are arranged into the structured value
    "bool": lambda v: v[0], "int2": lambda v: v[0], "int3": lambda v: v[0], "int5": lambda v: v[0], "int8": lambda v: v[0],
    "int17": lambda v: v[0], "int64": lambda v: v[0], "list_b_i3": lambda v: [v[0], v[1]], "rep_i3x2": lambda v: [v[0], v[1]],
    "list_i5_repb2": lambda v: [v[0], [v[1], v[2]]], "rep_list_x2": lambda v: [[v[0], v[1]], [v[2], v[3]]],
    "list_i1_b": lambda v: [v[0], v[1]],
}
NLEAVES = {"int64": 1, "bool": 1, "int2": 1, "int3": 1, "int5": 1, "int8": 1, "int17": 1, "list_b_i3": 2, "rep_i3x2": 2,
           "list_i5_repb2": 3, "rep_list_x2": 4, "list_i1_b": 2}


def leaf_dom(k, name, secret=False):
    _, kinds = schemas(k)[name]
    d = True
    for i, kd in enumerate(kinds):
        v = k.v("v%d" % i)
        if kd == "b" and not secret:
            continue            # PackBool packs the truth value of any plain object: nothing is out of range
        c = ((v == 0) | (v == 1)) if kd == "b" else ((v >= 0) & (v < kd))
        d = c if d is True else (d & c)
    return d


def plain_roundtrip(name):
    def fn(k):
        S, _ = schemas(k)[name]
        val = SHAPES[name]([k.v("v%d" % i) for i in range(NLEAVES[name])])
        bits = S.pack(val)
        return [S.unpack(bits, 0), len(bits) - S.bitlen()]
    return fn


def plain_ref(name, secret=False):
    def ref(k):
        _, kinds = schemas(k)[name]
        vs = [k.v("v%d" % i) for i in range(NLEAVES[name])]
        if not secret:
            # PackBool packs int(bool(v)) for a plain v: the round trip returns the truth value
            vs = [((v != 0) * 1) if kd == "b" else v for v, kd in zip(vs, kinds)]
        return [SHAPES[name](vs), 0]
    return ref


def secret_roundtrip(name):
    def fn(k):
        S, _ = schemas(k)[name]
        val = SHAPES[name]([k.S("v%d" % i) for i in range(NLEAVES[name])])
        bits = S.pack(val)
        return [S.unpack(bits, 0), len(bits) - S.bitlen()]
    return fn


def unpack_bits(m, kind):
    def fn(k):
        P = k.pk.PackIntMod(m)
        bl = P.bitlen()
        bits = [(k.B if kind == "bool" else k.S)("b%d" % i) for i in range(bl)]
        return P.unpack(bits, 0)
    return fn


def unpack_mixed(m0, m):
    """a record whose first field is given as plain-int bits and whose second field as secret bits"""
    def fn(k):
        S = k.pk.PackList([k.pk.PackIntMod(m0), k.pk.PackIntMod(m)])
        b0 = (m0 - 1).bit_length()
        bl = (m - 1).bit_length()
        bits = [(2 >> i) & 1 for i in range(b0)] + [k.S("b%d" % i) for i in range(bl)]
        return S.unpack(bits, 0)[1]
    return fn


def two_repeats(k, secret):
    """two PackRepeat instances of different total width in one schema, one of them nested in a repeat"""
    pk = k.pk
    S = pk.PackList([pk.PackRepeat(pk.PackIntMod(4), 2), pk.PackRepeat(pk.PackBool(), 3), pk.PackIntMod(8),
                     pk.PackRepeat(pk.PackRepeat(pk.PackBool(), 2), 2)])
    mk = k.S if secret else k.v
    val = [[mk("v0"), mk("v1")], [mk("v2"), mk("v3"), mk("v4")], mk("v5"), [[mk("v6"), mk("v7")], [mk("v8"), mk("v9")]]]
    bits = S.pack(val)
    return [S.unpack(bits, 0), len(bits) - S.bitlen(), S.bitlen() - 14]


def ref_two_repeats(k, secret):
    v = [k.v("v%d" % i) for i in range(10)]
    tb = (lambda x: x) if secret else (lambda x: (x != 0) * 1)
    return [[[v[0], v[1]], [tb(v[2]), tb(v[3]), tb(v[4])], v[5], [[tb(v[6]), tb(v[7])], [tb(v[8]), tb(v[9])]]], 0, 0]


def dom_two_repeats(k, secret):
    v = [k.v("v%d" % i) for i in range(10)]
    d = (v[0] >= 0) & (v[0] < 4) & (v[1] >= 0) & (v[1] < 4) & (v[5] >= 0) & (v[5] < 8)
    if secret:
        for i in (2, 3, 4, 6, 7, 8, 9):
            d = d & ((v[i] == 0) | (v[i] == 1))
    return d


def bits_value(k, m):
    bl = (m - 1).bit_length()
    acc = 0
    for i in range(bl):
        acc = acc + (1 << i) * k.v("b%d" % i)
    return acc


def build(n=4, tier="quick"):
    ents = []
    # A. widths: the bit entries of the operation catalogue, re-judged under C16 (extra widths in the thorough tier)
    for e in make_widths(n) + [a for a in make_asserts(n) if "positive" in a.tags]:
        if "pow" in e.tags:
            continue             # operand reuse after a secret-exponent power belongs to C05
        ents.append(e)
    names = list(SHAPES) if tier != "quick" else ["bool", "int3", "int5", "int8", "int17", "int64", "list_b_i3", "rep_i3x2", "list_i5_repb2", "list_i1_b"]
    for nm in names:
        ins = tuple("v%d" % i for i in range(NLEAVES[nm]))
        ents.append(Entry("pack_plain_" + nm, plain_roundtrip(nm), ins, ref=plain_ref(nm),
                          dom=(lambda k, nm=nm: leaf_dom(k, nm)), tags={"pack", "plain"}))
        ents.append(Entry("oob_pack_plain_" + nm, plain_roundtrip(nm), ins, ref=(lambda k, nm=nm: leaf_dom(k, nm)),
                          dom=(lambda k, nm=nm: leaf_dom(k, nm)), tags={"pack", "plain", "assert", "nocircuit"}))
        ents.append(Entry("pack_secret_" + nm, secret_roundtrip(nm), ins, ref=plain_ref(nm, True),
                          dom=(lambda k, nm=nm: leaf_dom(k, nm, True)), tags={"pack", "secret"}))
    for m in ([3, 5, 8] if tier == "quick" else [2, 3, 5, 8, (1 << n) + 1, 64]):
        bl = (m - 1).bit_length()
        ins = tuple("b%d" % i for i in range(bl))
        for kind in ("bool", "lc"):
            isb = (lambda k, bl=bl: _allbits(k, bl))
            ents.append(Entry("unpack_int%d_%sbits" % (m, kind), unpack_bits(m, kind), ins,
                              ref=(lambda k, m=m: bits_value(k, m)),
                              dom=(lambda k, m=m, bl=bl: _allbits(k, bl) & (bits_value(k, m) < m)),
                              assume=(lambda k, bl=bl: [_allbits(k, bl)]),
                              tags={"pack", "unpack", kind + "bits", "m=%d" % m}))
            ents.append(Entry("range_unpack_int%d_%sbits" % (m, kind), unpack_bits(m, kind), ins,
                              ref=(lambda k, m=m: bits_value(k, m) < m), dom=None,
                              assume=(lambda k, bl=bl: [_allbits(k, bl)]),
                              tags={"pack", "unpack", "assert", kind + "bits", "m=%d" % m}))
    # a secret field after a plain one: its range check must not depend on the kind of the first bit of the record
    for m in (5, 3):
        bl = (m - 1).bit_length()
        ins = tuple("b%d" % i for i in range(bl))
        ents.append(Entry("range_unpack_mixed_int%d" % m, unpack_mixed(10, m), ins,
                          ref=(lambda k, m=m: bits_value(k, m) < m), dom=None,
                          assume=(lambda k, bl=bl: [_allbits(k, bl)]),
                          tags={"pack", "unpack", "assert", "lcbits", "mixed", "m=%d" % m}))
    ins10 = tuple("v%d" % i for i in range(10))
    ents.append(Entry("pack_plain_two_repeats", (lambda k: two_repeats(k, False)), ins10, ref=(lambda k: ref_two_repeats(k, False)),
                      dom=(lambda k: dom_two_repeats(k, False)), tags={"pack", "plain"}))
    ents.append(Entry("pack_secret_two_repeats", (lambda k: two_repeats(k, True)), ins10, ref=(lambda k: ref_two_repeats(k, True)),
                      dom=(lambda k: dom_two_repeats(k, True)), tags={"pack", "secret"}))
    nms = [e.name for e in ents]
    assert len(nms) == len(set(nms)), [x for x in nms if nms.count(x) > 1]
    return ents


def _allbits(k, bl):
    d = True
    for i in range(bl):
        v = k.v("b%d" % i)
        c = (v == 0) | (v == 1)
        d = c if d is True else (d & c)
    return d


def by_name(n=4, tier="thorough"):
    return {e.name: e for e in build(n, tier)}
