#!/bin/sh
# usage: tools/try_seed_scratch.sh <seed dir> <Cxx>   -- triage only: confirm a seeded change (verify_seed.sh) and run the
# check against a scratch worktree of /repo HEAD with the patch applied (VERIF_REPO), so that several can run at once
# and /repo is not touched.  The record kept in seeded/*/meta.json comes from tools/keep_seed.py (apply to /repo, check, undo).
S="$1"; C="$2"; N=$(echo "$S" | tr '/' '_')
W=/tmp/ks/$N
mkdir -p /tmp/ks
v=$(/verif/tools/verify_seed.sh "$S" | tail -1)
git -C /repo worktree add --detach "$W" HEAD -q 2>/dev/null
git -C "$W" apply "$S/patch.diff" || { echo "$S: PATCH DOES NOT APPLY"; git -C /repo worktree remove --force "$W"; exit 9; }
cd /verif
VERIF_REPO="$W" VERIF_NPROC="${VERIF_NPROC:-4}" ./check "$C" --tier quick > /tmp/ks/$N.out 2>/tmp/ks/$N.err
rc=$?
echo "== $S $C rc=$rc viol=$(grep -c '^VIOLATION' /tmp/ks/$N.out) [$v] $(grep -A1 '^VIOLATION' /tmp/ks/$N.out | grep '^  ' | head -1 | cut -c1-200) $(grep HARNESS-ERROR /tmp/ks/$N.out /tmp/ks/$N.err | head -1 | cut -c1-160)"
git -C /repo worktree remove --force "$W"
