"""C07: a false guard makes code inert; a true guard is transparent.
g = 0: no path raises because of operand values, the recorded witness satisfies everything, a value selected from the
       other branch is unique.   g = 1: same outcomes, same values, same enforcement as the unguarded code."""
import z3

from symtrace import engine as E, harness as H, oblig as O
from symtrace.r1cs import Sys
from symtrace.concrete import flat, lincomb_of
from . import catalogue as CAT
from . import common as C
from .catjob import lookup, Job
from .c01 import is_heavy
from .c02 import build_system, soundness_goal, adversarial_assignment

PID = "C07"
TYPE_ERRORS = (TypeError, NotImplementedError, RuntimeError, AttributeError)


def selected(e):
    return not ("val" in e.tags)


def jobs(tier):
    js = []
    ns = [4] if tier == "quick" else [4, 8]
    for n in ns:
        bound = (1 << 64) if tier == "quick" else (1 << 120)
        for e in CAT.build(n, tier if n == 4 else "quick"):
            if not selected(e) or (is_heavy(e) and (tier == "quick" or n > 4)):
                continue
            if is_heavy(e) and "pow" in e.tags and "ss" in e.tags:
                continue          # 30 guarded x 18 unguarded path pairs over degree-15 terms: does not finish in 25 min
            if n > 4 and ("arr" in e.tags or "comp" in e.tags):
                continue
            js.append(dict(name="%s/n%d/guard" % (e.name, n), entry=e.name, backend="snarkjs",
                           cfg=dict(n=n, r=2, guard="sym", bound=bound), tier=tier, weight=n * (4 if "arr" in e.tags else 1)))
            if n == 4 and ("comp" in e.tags or "sel" in e.tags or e.name in ("int_lt_ss", "int_eq_ss", "int_floordiv_ss",
                                                                            "assert_lt_ss", "assert_eq_ss", "int_abs")):
                js.append(dict(name="%s/n4/nest2" % e.name, entry=e.name, backend="snarkjs",
                               cfg=dict(n=4, r=2, guard=("nest", 2), bound=bound), tier=tier, weight=8))
    from .c01 import PRELUDE_SUBSET
    for e in CAT.build(4, "quick"):
        if (e.name in PRELUDE_SUBSET or e.name in ("assert_lt_ss", "assert_positive", "assert_eq_ss")) and selected(e) \
                and not (e.tags & {"truediv", "floordiv", "mod"}):        # (their division-by-zero finding is recorded for the plain modes)
            for pre in (["false_region"], ["aborted_region"], ["self_first"]):
                js.append(dict(name="%s/n4/guard-after-%s" % (e.name, pre[0]), entry=e.name, backend="snarkjs",
                               cfg=dict(n=4, r=2, guard="sym", bound=(1 << 64), prelude=pre), tier=tier, weight=3))
            for pre in (["false_region"], ["true_region"], ["aborted_region"]):
                js.append(dict(name="%s/n4/guard-inside-after-%s" % (e.name, pre[0]), entry=e.name, backend="snarkjs",
                               cfg=dict(n=4, r=2, guard="sym", bound=(1 << 64), inner_prelude=pre), tier=tier, weight=3))
    # regions of the block API and lazy if_then_else: what a region whose condition is false writes (scalars, list
    # cells, cells of nested lists) does not survive it, the run completes, and the witness satisfies the system
    from . import cat_c09
    for e in cat_c09.build(8, tier):
        if "c09out" not in e.tags and e.tags & {"if_only", "nestedop", "matrix", "lazy", "nested", "elif2", "elif_cmp", "lazy_cmp_branches"}:
            base = dict(entry=e.name, backend="snarkjs", tier=tier, pid=PID, catalogue="checks.cat_c09", weight=2)
            cfg = dict(n=8, r=2, guard=None, bound=None)
            js.append(dict(base, name="%s/region-value" % e.name, analysis="obs", cfg=dict(cfg)))
            js.append(dict(base, name="%s/region-witness" % e.name, analysis="witness", cfg=dict(cfg)))
    return js


def outcome_class(t):
    return "ok" if t.path.ok else type(t.path.exc).__name__


def leaf_vals(t):
    out = []
    for o in flat(t.result):
        lc = lincomb_of(o)
        out.append(lc.value if lc is not None else o)
    return out


def run_job(env, spec):
    if spec.get("analysis") == "obs":
        from .obsjob import run_obs_job
        return run_obs_job(PID, env, spec, lookup(spec), "checks.cat_c09")
    if spec.get("analysis") == "witness":
        from . import c01
        return c01.run_job(env, spec)
    entry = lookup(spec)
    job = Job(spec.get("pid", PID), env, spec, entry, spec.get("catalogue", "checks.catalogue"))
    job.cfg["want_ref"] = False
    gnames = ["g"] if job.cfg["guard"] == "sym" else ["g%d" % i for i in range(job.cfg["guard"][1])]
    E.ENG.name_prefix = "G_"
    tracesG = job.explore()
    valsG = job.vals
    gall1 = lambda: z3.And([valsG[g].t == 1 for g in gnames])
    gsome0 = lambda: z3.Or([valsG[g].t == 0 for g in gnames])
    # plain twin (unguarded), separate skolem namespace
    E.ENG.name_prefix = "U_"
    jobU = Job(spec.get("pid", PID), env, spec, entry, spec.get("catalogue", "checks.catalogue"))
    jobU.cfg.update(guard=None, want_ref=False, prelude=None, inner_prelude=None)     # the reference run has no history
    tracesU = jobU.explore()
    E.ENG.name_prefix = ""
    job.res["paths"] += jobU.res["paths"]
    job.res["tv"] += jobU.res["tv"]
    job.res["errors"] += jobU.res["errors"]
    # a harness that completes for NO input under a false guard raises because of its constants (x ** -3, x / 0):
    # a program error, not "because of the values it meets"
    completes_under_false_guard = False
    for t in tracesG:
        if t.path.ok:
            st, _ = H.solve(t.path.facts(), gsome0(), job.timeout)
            if st != "unsat":
                completes_under_false_guard = True
                break
    for t in tracesG:
        pi = t.extra["idx"]
        facts = t.path.facts()
        # ---------------- false guard somewhere: inert
        if not t.path.ok:
            if not completes_under_false_guard:
                continue
            st, m = H.solve(facts, gsome0(), job.timeout, label="C07 %s raise under false guard" % job.name)
            job.obligation(st)
            if st == "sat":
                inputs = H.model_inputs(m, valsG)
                job.finding("c07_raise", "under a false guard inputs %s raise %r" % (inputs, t.path.exc),
                            dict(kind="c07_raise", inputs=inputs), facts=facts, goal=gsome0(), model=m,
                            extra_ns=dict(exc_repr=repr(t.path.exc)))
            elif st == "unknown":
                job.inconclusive("path %d raise-under-false-guard: unknown" % pi)
        else:
            for ob in O.c01_obligations(env, t, job.timeout, label=job.name):
                job.obligation(ob["status"])
                if ob["status"] == "sat":
                    inputs = H.model_inputs(ob["model"], valsG)
                    job.finding("c01", "constraint %d unsatisfied by the recorded witness on %s" % (ob["idx"], inputs),
                                dict(kind="c01", inputs=inputs, idx=ob["idx"]))
                elif ob["status"] == "unknown":
                    job.inconclusive("path %d constraint %d: unknown" % (pi, ob["idx"]))
        # ---------------- all guards true: transparent (outcome + values equal to the unguarded run)
        for u in tracesU:
            both = facts + u.path.facts() + [gall1()]
            if outcome_class(t) != outcome_class(u):
                st, m = H.solve(both, [], job.timeout, label="C07 %s outcome differs under true guard" % job.name)
                job.obligation(st)
                if st == "sat":
                    inputs = H.model_inputs(m, valsG)
                    job.finding("c07_transparent", "guard=1: %s, unguarded: %s on %s" % (outcome_class(t), outcome_class(u), inputs),
                                dict(kind="c07_transparent", inputs=inputs), facts=both, goal=[], model=m)
                elif st == "unknown":
                    job.inconclusive("path %d outcome-vs-plain: unknown" % pi)
            elif t.path.ok:
                a, b = leaf_vals(t), leaf_vals(u)
                if len(a) != len(b):
                    job.res["errors"].append("%s: result shapes differ guard/plain" % job.name)
                    continue
                diffs = [E.T(x) != E.T(y) for x, y in zip(a, b) if type(x) in (E.SymInt, E.SymBool, int, bool)]
                if not diffs:
                    continue
                st, m = H.solve(both, z3.Or(diffs), job.timeout, label="C07 %s value differs under true guard" % job.name)
                job.obligation(st)
                if st == "sat":
                    inputs = H.model_inputs(m, valsG)
                    job.finding("c07_transparent", "guard=1 value differs from the unguarded value on %s" % inputs,
                                dict(kind="c07_transparent", inputs=inputs), facts=both, goal=z3.Or(diffs), model=m)
                elif st == "unknown":
                    job.inconclusive("path %d value-vs-plain: unknown" % pi)
        # ---------------- all guards true: same enforcement (uniqueness of results with the guard wires fixed to 1)
        if t.path.ok and "assert" not in entry.tags and any(lincomb_of(o) is not None for o in flat(t.result)) \
                and not known_unsound(entry) and job.cfg["n"] <= 4:      # (uniqueness at 8 and 16 bits is C02's business)
            st0, _ = H.solve(facts, gall1(), job.timeout)
            if st0 == "sat":
                sysm = build_system(env, t, job.cfg)
                pubt, privt = H.wire_terms(t)
                honest = {("pub", i): x for i, x in enumerate(pubt)}
                honest.update({("priv", i): x for i, x in enumerate(privt)})
                f1 = facts + [gall1()]
                sysm.propagate(honest, f1, lambda f, g: H.solve(f, g, job.timeout))
                alts, names = soundness_goal(env, t, sysm)
                fs = f1 + sysm.encode()
                st, m = H.solve(fs, z3.Or(alts), job.timeout, label="C07 %s soundness under true guard" % job.name)
                job.obligation(st)
                if st == "sat":
                    adv, values = adversarial_assignment(m, sysm, t)
                    if sysm.check_model(values):
                        job.res["errors"].append("%s: model fails exact validation" % job.name)
                    else:
                        inputs = H.model_inputs(m, valsG)
                        job.finding("c02", "guard=1: second satisfying witness with a different result on %s" % inputs,
                                    dict(kind="c02", inputs=inputs, adversarial=adv), facts=fs, goal=z3.Or(alts), model=m,
                                    extra_ns=names)
                elif st == "unknown":
                    job.inconclusive("path %d soundness under true guard: unknown" % pi)
        job.sample(dict(path=pi, outcome=outcome_class(t), path_condition=[str(z3.simplify(c))[:100] for c in t.path.pc[:3]]))
    # ---------------- assertions under a true guard: rejected => unsatisfiable, on the guarded ignore_errors structure
    if "assert" in entry.tags and ("decl" not in entry.tags or "use" in entry.tags) and job.cfg["guard"] == "sym":
        E.ENG.name_prefix = "I_"
        jobI = Job(spec.get("pid", PID), env, spec, entry, spec.get("catalogue", "checks.catalogue"))
        jobI.cfg.update(want_ref=False, ignore=True)
        tI = [t for t in jobI.explore() if t.path.ok]
        E.ENG.name_prefix = ""
        job.res["paths"] += jobI.res["paths"]
        if tI:
            tS = tI[0]
            fixed, bounds = {}, {}
            M = job.cfg.get("bound")
            for nm, key in tS.operands:
                fixed[key] = valsG[nm].t
                if M is not None:
                    bounds[key] = (-M + 1, M - 1)
            sysm = Sys(env.P, len(tS.pub), len(tS.priv), tS.cons, fixed, bounds=bounds)
            enc = sysm.encode(skip_fixed=False)
            for u in tracesU:
                if u.path.ok:
                    continue
                fs = u.path.facts() + enc + [gall1()]
                st, m = H.solve(fs, [], job.timeout, label="C07 %s guard=1 rejected=>unsat" % job.name)
                job.obligation(st)
                if st == "sat":
                    adv, values = adversarial_assignment(m, sysm, tS)
                    if sysm.check_model(values):
                        job.res["errors"].append("%s: model fails exact validation" % job.name)
                        continue
                    inputs = H.model_inputs(m, valsG)
                    job.finding("c03_rejected_provable", "guard=1: operands %s rejected when unguarded but provable under the true guard" % inputs,
                                dict(kind="c03_rejected_provable", inputs=inputs, adversarial=adv,
                                     struct_ignore=("decl" not in entry.tags),      # boolean constructors raise under ignore_errors too
                                     honest_cfg=dict(n=job.cfg["n"], r=2, guard=None)), facts=fs, goal=[], model=m)
                elif st == "unknown":
                    job.inconclusive("guard=1 rejected=>unsat: unknown")
    return job.done()


def known_unsound(entry):
    """operations whose unguarded form is already a recorded C02 finding (quotients, &|^ with constants)"""
    t = entry.tags
    if t & {"floordiv", "mod", "divmod"}:
        return True
    if "rshift" in t and t & {"ss", "cs"}:
        return True              # >> by a secret divides by 2**count through the same gadget
    if t & {"and", "or", "xor"} and t & {"sc", "cs"} and "int" in t:
        return True
    return entry.name in ("cmp_fdiv_add", "cmp_mod_eq")


def main(argv):
    tier = C.tier()
    rep = C.Report(PID)
    rep.functions |= {"pysnark.runtime.guarded/add_guard/restore_guard/is_guard/add_constraint (guarded form with dummy)",
                      "all catalogue operations executed inside guarded(g)",
                      "pysnark.branching: _if/_else/_endif regions, BranchingValues backup/merge and lazy if_then_else on the "
                      "if_only/nested/nestedop/matrix/lazy programs of the C09 catalogue (false-condition writes do not survive)"}
    rep.bounds = dict(bitlength=[4] if tier == "quick" else [4, 8], guard_nesting=2, guard_values="0/1",
                      operand_magnitude="< 2^64" if tier == "quick" else "< 2^120")
    rep.assumptions = ["the operator catalogue runs under runtime.guarded with a plain secret; block-API regions are exercised on the "
                       "C09 programs listed under functions (the full block API is C09)",
                       "operations whose unguarded form is a recorded C02 finding are exempt from the soundness-under-true-guard clause"]
    js = jobs(tier)
    if argv:
        js = [j for j in js if any(a in j["name"] for a in argv)]
    for r in C.run_jobs("c07", js):
        rep.absorb(r)
    return rep.finish("./check C07")
