"""Generic worker for checks that run catalogue entries: explore once, validate the translation of every path,
then hand the traces to a property-specific analysis."""
import re
import z3

from symtrace import engine as E, harness as H, oblig as O
from . import common as C


def lookup(spec):
    """catalogue entry of a job spec (the catalogue module is named in the spec; default: the operation catalogue)"""
    import importlib
    mod = importlib.import_module(spec.get("catalogue", "checks.catalogue"))
    return mod.by_name(spec["cfg"].get("n", 4), "thorough")[spec["entry"]]


def gtag(cfg):
    g = cfg.get("guard")
    t = "plain"
    if g == "sym":
        t = "guard"
    elif isinstance(g, (tuple, list)):
        t = "nest%d" % g[1]
    elif g in (0, 1):
        t = "g%d" % g
    if cfg.get("ignore"):
        t += "+ignore"
    if cfg.get("prelude"):
        t += "+after:" + ",".join(cfg["prelude"])
    if cfg.get("inner_prelude"):
        t += "+inside-after:" + ",".join(cfg["inner_prelude"])
    return t


def cfg_json(cfg):
    c = {k: v for k, v in cfg.items() if k in ("n", "r", "guard", "ignore", "track_all", "prelude", "inner_prelude")}
    if isinstance(c.get("guard"), tuple):
        c["guard"] = list(c["guard"])
    return c


def region_term(k, vals, env, cfg, extra=None):
    """region predicate of a known finding as a z3 Bool over the harness inputs (and extras)"""
    ns = {nm: v.t for nm, v in vals.items()}
    ns.update({"in_" + nm: v.t for nm, v in vals.items()})      # (an input called n / r / P is shadowed by the configuration below)
    ns.update(notbit=lambda v: z3.And(v != 0, v != 1), isbit=lambda v: z3.Or(v == 0, v == 1))
    ns.update(And=z3.And, Or=z3.Or, Not=z3.Not, P=env.P, n=cfg.get("n", 4), r=cfg.get("r", 2), true=z3.BoolVal(True),
              false=z3.BoolVal(False), If=z3.If)
    if extra:
        ns.update(extra)
    r = eval(k.get("region", "true"), {"__builtins__": {}}, ns)
    if r is True or r is False:
        r = z3.BoolVal(r)
    return r


class Job:
    """state of one job while it is analysed; also the result accumulator"""

    def __init__(self, pid, env, spec, entry, catalogue_module="checks.catalogue"):
        self.pid, self.env, self.spec, self.entry = pid, env, spec, entry
        self.cfg = dict(spec["cfg"])
        self.catmod = catalogue_module
        self.known = C.load_known(pid)
        self.timeout = spec.get("timeout_ms") or (20000 if spec.get("tier", "quick") == "quick" else 120000)
        self.res = dict(paths=0, obligations=0, discharged=0, inconclusive=[], findings=[], samples=[], tv=0,
                        twins=dict(expected_sat=0, got_sat=0), distinct=[], errors=[])
        self.name = spec["name"]

    def explore(self, validate=True, compare_result=True):
        H.STATS.__init__()
        E.ENG.stats.update(feas_queries=0, feas_time=0.0, feas_unknown=0, paths=0, aborted=0)
        E.ENG.feas_timeout_ms = self.spec.get("feas_timeout_ms", 20000)
        self.traces, self.vals = H.run_entry(self.env, self.entry, self.cfg)
        self.res["paths"] = len(self.traces)
        good = []
        for pi, t in enumerate(self.traces):
            t.extra["idx"] = pi
            if t.path.uncertain:
                # never pruned on unknown: the path is kept (over-approximation); a sat obligation on it carries a
                # model of the path facts, so it is feasible after all
                self.res["uncertain_paths"] = self.res.get("uncertain_paths", 0) + 1
            if validate and (len(t.path.ax) > 600 or self.spec.get("skip_tv")):
                # very large paths (Poseidon): a model of ~2000 non-linear definitions costs minutes; the translator is
                # validated on every other harness of the run
                self.res["tv_skipped"] = self.res.get("tv_skipped", 0) + 1
            elif validate:
                ok, msg, tvin = O.validate_path(self.env, self.entry, self.cfg, t, self.vals, compare_result)
                t.extra["tv_inputs"] = tvin
                if ok is True:
                    self.res["tv"] += 1
                elif ok is False:
                    self.res["errors"].append("translator validation failed for %s: %s" % (self.name, msg))
                    continue
                else:
                    self.res["tv_skipped"] = self.res.get("tv_skipped", 0) + 1
            good.append(t)
        if self.traces:
            self.res["distinct"].append(self.name)
        self.good = good
        return good

    def inconclusive(self, msg):
        self.res["inconclusive"].append("%s %s" % (self.name, msg))

    def obligation(self, status):
        self.res["obligations"] += 1
        if status in ("unsat", "syntactic"):
            self.res["discharged"] += 1

    def sample(self, d):
        if len(self.res["samples"]) < 2:
            d = dict(d)
            d.setdefault("harness", self.name)
            self.res["samples"].append(d)

    def twin(self, got_sat):
        self.res["twins"]["expected_sat"] += 1
        if got_sat:
            self.res["twins"]["got_sat"] += 1

    def finding(self, kind, what, replay, facts=None, goal=None, extra_ns=None, model=None, regions_kind=None,
                remodel=None):
        """record a sat obligation.  If known findings match this harness, decide with the solver whether a model
        exists OUTSIDE all listed regions (new violation) or not (known finding)."""
        # one finding per (harness, kind) is enough to report; further ones are counted only
        seen = self.__dict__.setdefault("_seen", {})
        seen[kind] = seen.get(kind, 0) + 1
        if seen[kind] > 1 and not self.spec.get("all_findings"):
            self.res["suppressed_duplicates"] = self.res.get("suppressed_duplicates", 0) + 1
            return None
        replay = dict(replay)
        replay.setdefault("entry", self.entry.name)
        replay.setdefault("cfg", cfg_json(self.cfg))
        replay.setdefault("backend", self.spec.get("backend", "snarkjs"))
        replay.setdefault("catalogue", self.catmod)
        replay["kind"] = replay.get("kind", kind)
        f = dict(what="%s: %s" % (self.name, what), known=None, replay=replay)
        kfs = C.known_for(self.known, self.entry.name + "/" + gtag(self.cfg), regions_kind or kind)
        exc_repr = (extra_ns or {}).get("exc_repr")
        kfs = [k for k in kfs if not k.get("exc") or (exc_repr is not None and re.search(k["exc"], exc_repr))]
        if kfs and facts is not None and goal is not None:
            extra_ns = dict(extra_ns or {})
            for tg in self.entry.tags:
                if tg.startswith("c="):
                    extra_ns.setdefault("c", int(tg[2:]))
            regs = [region_term(k, self.vals, self.env, self.cfg, extra_ns) for k in kfs]
            goals = (list(goal) if isinstance(goal, (list, tuple)) else [goal]) + [z3.Not(r) for r in regs]
            st2, m2 = H.solve(facts, goals, self.timeout)
            if st2 == "unsat":
                # every model lies in a listed region; attribute to the first region containing this model
                kid = kfs[0]
                if model is not None:
                    for k, r in zip(kfs, regs):
                        if z3.is_true(model.eval(r, model_completion=True)):
                            kid = k
                            break
                f["known"] = kid["id"]
                f["what"] = kid["what"]
                self.res["discharged"] += 1
            elif st2 == "sat":
                if remodel is not None:
                    f["replay"].update(remodel(m2))
                else:
                    f["replay"]["inputs"] = H.model_inputs(m2, self.vals)
                f["what"] += " [outside every known-finding region: %s]" % (f["replay"].get("inputs"),)
            else:
                self.inconclusive("known-finding carving query unknown for %s" % what)
                return None
        self.res["findings"].append(f)
        return f

    def done(self):
        for lab in H.STATS.cross_disagreements:
            self.inconclusive("second solver (z3 4.8.12) answers sat where z3 5.1 answered unsat: %s" % lab)
        for q in H.STATS.samples[:2]:
            if len(self.res["samples"]) < 4:
                self.res["samples"].append(dict(query=q))
        self.res["solver"] = dict(H.STATS.as_dict(), feas_queries=E.ENG.stats["feas_queries"],
                                  feas_s=round(E.ENG.stats["feas_time"], 3))
        return self.res
