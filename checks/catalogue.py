"""The operation catalogue (DESIGN 5.0): small programs over the public pysnark API.

No z3 import here: the same entries are run symbolically by the engine and concretely by translator validation
and by replay under /venv/bin/python.  An entry's `fn(k)` builds its secret inputs through the Kit `k`
(k.S/k.B/k.F/k.Pub) and returns the object(s) the API returned; `ref(k)` is the same expression on the plain
values (Python's own semantics); `dom(k)` is the documented in-domain predicate for the "does not raise" clause.
Boolean connectives in dom/assume use & and | (never and/or) so that they stay single terms symbolically.
"""
import operator as op


class Entry:
    def __init__(self, name, fn, ins, ref=None, dom=None, assume=None, tags=(), may_raise=None):
        self.name, self.fn, self.ins, self.ref, self.dom, self.assume = name, fn, tuple(ins), ref, dom, assume
        self.tags = frozenset(tags)
        self.may_raise = may_raise       # observation harnesses: exception types the program may legitimately raise

    def __repr__(self):
        return "Entry(%s)" % self.name


def fits(v, bits):
    """|v| < 2^bits"""
    return (v > -(1 << bits)) & (v < (1 << bits))


def nonneg_bits(v, bits):
    return (v >= 0) & (v < (1 << bits))


def both(a, b):
    return a & b


BINOPS = [
    ("add", op.add), ("sub", op.sub), ("mul", op.mul), ("truediv", op.truediv), ("floordiv", op.floordiv),
    ("mod", op.mod), ("pow", op.pow), ("lshift", op.lshift), ("rshift", op.rshift),
    ("and", op.and_), ("or", op.or_), ("xor", op.xor),
    ("lt", op.lt), ("le", op.le), ("gt", op.gt), ("ge", op.ge), ("eq", op.eq), ("ne", op.ne),
]
CMP = {"lt", "le", "gt", "ge", "eq", "ne"}
BITW = {"and", "or", "xor"}


def ref_truediv(a, b):
    # the documented meaning of '/' on secrets: exact integer division (raises otherwise)
    q = a // b
    return q


def _ref_for(nm, f):
    if nm == "truediv":
        return ref_truediv
    return f


def int_dom(nm, kind, c=None):
    """documented domain of integer operation nm (narrow reading, see DESIGN C05)"""
    def dom(k, x, y):
        n = k.n
        if nm in ("add", "sub", "mul"):
            return fits(x, n - 1) & fits(y, n - 1)
        if nm in ("lt", "le", "gt", "ge"):
            # "comparison differences that fit the configured bitlength" (C05), i.e. |x - y| <= 2^n - 1 -- which is what
            # check_positive documents ("works for __lt__, etc on bitlength-length values")
            return (x - y <= (1 << n) - 1) & (y - x <= (1 << n) - 1)
        if nm in CMP:
            return fits(x, n - 1) & fits(y, n - 1)
        if nm == "truediv":
            return fits(x, n - 1) & fits(y, n - 1) & (y != 0) & (x % (y + (y == 0)) == 0)
        if nm in ("floordiv", "mod"):
            # positive divisors, non-negative dividends below the divisor range: the gadget range-checks rem and y-rem-1
            return nonneg_bits(x, n - 1) & (y > 0) & (y < (1 << (n - 1)))
        if nm in BITW:
            return nonneg_bits(x, n) & nonneg_bits(y, n)
        if nm == "rshift":
            # shift counts below the bit length (a secret count is served by dividing by 2^count, which must itself
            # pass the n-bit range checks of the division gadget)
            return nonneg_bits(x, n) & (y >= 0) & (y < n)
        if nm == "lshift":
            return fits(x, n - 1) & (y >= 0) & (y < n)
        if nm == "pow":
            return fits(x, n - 1) & nonneg_bits(y, n)
        raise KeyError(nm)
    return dom


def make_int_binops(consts):
    ents = []
    for nm, f in BINOPS:
        rf = _ref_for(nm, f)
        d = int_dom(nm, "ss")
        ents.append(Entry("int_%s_ss" % nm,
                          (lambda k, f=f: f(k.S("x"), k.S("y"))), ("x", "y"),
                          ref=(lambda k, rf=rf: rf(k.v("x"), k.v("y"))),
                          dom=(lambda k, d=d: d(k, k.v("x"), k.v("y"))),
                          tags={"int", "binop", nm, "ss"} | ({"ret:bool"} if nm in CMP else set())))
        if nm in ("mul", "lt", "eq", "truediv", "floordiv", "and", "add"):
            # one operand public (PubVal), the other private
            ents.append(Entry("int_%s_ps" % nm,
                              (lambda k, f=f: f(k.Pub("x"), k.S("y"))), ("x", "y"),
                              ref=(lambda k, rf=rf: rf(k.v("x"), k.v("y"))),
                              dom=(lambda k, d=d: d(k, k.v("x"), k.v("y"))),
                              tags={"int", "binop", nm, "ss", "pub"} | ({"ret:bool"} if nm in CMP else set())))
        for c in consts:
            cn = ("m%d" % -c) if c < 0 else str(c)
            ents.append(Entry("int_%s_sc%s" % (nm, cn),
                              (lambda k, f=f, c=c: f(k.S("x"), c)), ("x",),
                              ref=(lambda k, rf=rf, c=c: rf(k.v("x"), c)),
                              dom=(lambda k, d=d, c=c: d(k, k.v("x"), c)),
                              tags={"int", "binop", nm, "sc", "c=%d" % c} | ({"ret:bool"} if nm in CMP else set())))
            ents.append(Entry("int_%s_cs%s" % (nm, cn),
                              (lambda k, f=f, c=c: f(c, k.S("x"))), ("x",),
                              ref=(lambda k, rf=rf, c=c: rf(c, k.v("x"))),
                              dom=(lambda k, d=d, c=c: d(k, c, k.v("x"))),
                              tags={"int", "binop", nm, "cs", "c=%d" % c} | ({"ret:bool"} if nm in CMP else set())))
    return ents


def make_int_unops():
    ents = [
        Entry("int_neg", lambda k: -k.S("x"), ("x",), ref=lambda k: -k.v("x"),
              dom=lambda k: fits(k.v("x"), k.n - 1), tags={"int", "unop", "neg"}),
        Entry("int_pos", lambda k: +k.S("x"), ("x",), ref=lambda k: +k.v("x"),
              dom=lambda k: fits(k.v("x"), k.n - 1), tags={"int", "unop", "pos"}),
        Entry("int_abs", lambda k: abs(k.S("x")), ("x",), ref=lambda k: abs(k.v("x")),
              dom=lambda k: fits(k.v("x"), k.n - 1), tags={"int", "unop", "abs"}),
        Entry("int_invert", lambda k: ~k.S("x"), ("x",), ref=lambda k: ~k.v("x"),
              dom=lambda k: nonneg_bits(k.v("x"), k.n), tags={"int", "unop", "invert"}),
        Entry("int_if_else", lambda k: _mk3(k, lambda b, x, y: b.if_else(x, y)), ("c", "x", "y"),
              ref=lambda k: _ref_sel(k), dom=lambda k: ((k.v("c") == 0) | (k.v("c") == 1)),
              tags={"int", "sel", "if_else"}),
        Entry("int_check_zero", lambda k: k.S("x").check_zero(), ("x",), ref=lambda k: k.v("x") == 0,
              dom=lambda k: fits(k.v("x"), k.n), tags={"int", "check", "ret:bool"}),
        Entry("int_check_nonzero", lambda k: k.S("x").check_nonzero(), ("x",), ref=lambda k: k.v("x") != 0,
              dom=lambda k: fits(k.v("x"), k.n), tags={"int", "check", "ret:bool"}),
        Entry("int_check_positive", lambda k: k.S("x").check_positive(), ("x",), ref=lambda k: k.v("x") >= 0,
              dom=lambda k: fits(k.v("x"), k.n), tags={"int", "check", "ret:bool"}),
        Entry("int_divmod_ss", lambda k: divmod(k.S("x"), k.S("y")), ("x", "y"),
              ref=lambda k: _pydivmod(k.v("x"), k.v("y")),
              dom=lambda k: nonneg_bits(k.v("x"), k.n - 1) & (k.v("y") > 0) & (k.v("y") < (1 << (k.n - 1))),
              tags={"int", "binop", "divmod", "ss"}),
        Entry("int_divmod_sc3", lambda k: divmod(k.S("x"), 3), ("x",),
              ref=lambda k: _pydivmod(k.v("x"), 3),
              dom=lambda k: nonneg_bits(k.v("x"), k.n - 1) if k.n > 2 else None,
              tags={"int", "binop", "divmod", "sc"}),
        Entry("int_divmod_cs3", lambda k: divmod(3, k.S("x")), ("x",),
              ref=lambda k: _pydivmod(3, k.v("x")),
              dom=lambda k: (k.v("x") > 0) & (k.v("x") < (1 << (k.n - 1))) if k.n > 2 else None,
              tags={"int", "binop", "divmod", "cs", "c=3"}),
        Entry("int_val", lambda k: _val(k), ("x",), ref=None, tags={"int", "val"}),
    ]
    return ents


def _pow_reuse(k):
    """operands must not be altered by an operation: use the base again after base ** secret"""
    x = k.S("x")
    y = k.S("y")
    x ** y
    return [x * 3, abs(x), x < 0]


def _rshift_reuse(k):
    x = k.S("x")
    g = k.S("g")
    k.rt.guarded(g)(lambda: x >> 2)()
    return x >> 1


def _bits_twice(k, w):
    x = k.S("x")
    x.to_bits(w)
    return x.to_bits(w)


def _bits_wide_narrow(k, w1, w2):
    x = k.S("x")
    x.to_bits(w1)
    return x.to_bits(w2)


def _pydivmod(a, b):
    return (a // b, a % b)


def _val(k):
    x = k.S("x")
    v = x.val()
    return [x, v]


def _mk3(k, f):
    b = k.B("c")
    x = k.S("x")
    y = k.S("y")
    return f(b, x, y)


def _ref_sel(k):
    # Python: x if c else y, for c in {0,1}:  y + c*(x-y)
    return k.v("y") + k.v("c") * (k.v("x") - k.v("y"))


def make_widths(n):
    ws = sorted(set([0, 1, 2, 3, n - 1, n, n + 1]))        # width 0 is a width too: only the value 0 (check_positive: 0 and -1) fits
    ents = []
    for w in ws:
        ents.append(Entry("int_to_bits_w%d" % w, (lambda k, w=w: k.S("x").to_bits(w)), ("x",),
                          ref=(lambda k, w=w: [(k.v("x") >> i) & 1 for i in range(w)]),
                          dom=(lambda k, w=w: nonneg_bits(k.v("x"), w)), tags={"int", "bits", "to_bits", "w=%d" % w}))
        ents.append(Entry("int_check_positive_w%d" % w, (lambda k, w=w: k.S("x").check_positive(w)), ("x",),
                          ref=(lambda k: k.v("x") >= 0), dom=(lambda k, w=w: fits(k.v("x"), w)),
                          tags={"int", "check", "ret:bool", "w=%d" % w}))
        ents.append(Entry("int_from_to_bits_w%d" % w,
                          (lambda k, w=w: k.rt.LinComb.from_bits(k.S("x").to_bits(w))), ("x",),
                          ref=(lambda k: k.v("x")), dom=(lambda k, w=w: nonneg_bits(k.v("x"), w)),
                          tags={"int", "bits", "roundtrip", "w=%d" % w}))
    ents.append(Entry("int_to_bits_twice", lambda k: _bits_twice(k, 3), ("x",),
                      ref=lambda k: [(k.v("x") >> i) & 1 for i in range(3)],
                      dom=lambda k: nonneg_bits(k.v("x"), 3), tags={"int", "bits", "to_bits", "reuse"}))
    ents.append(Entry("int_to_bits_narrow_after_wide", lambda k: _bits_wide_narrow(k, n + 1, 2), ("x",),
                      ref=lambda k: [(k.v("x") >> i) & 1 for i in range(2)],
                      dom=lambda k: nonneg_bits(k.v("x"), 2), tags={"int", "bits", "to_bits", "reuse"}))
    ents.append(Entry("int_rshift_after_guarded_rshift", lambda k: _rshift_reuse(k), ("x", "g"),
                      ref=lambda k: k.v("x") >> 1, dom=lambda k: nonneg_bits(k.v("x"), k.n),
                      assume=lambda k: [(k.v("g") == 0) | (k.v("g") == 1)], tags={"int", "bits", "rshift", "reuse"}))
    ents.append(Entry("int_pow_ss_then_reuse_base", lambda k: _pow_reuse(k), ("x", "y"),
                      ref=lambda k: [k.v("x") * 3, abs(k.v("x")), k.v("x") < 0],
                      dom=lambda k: fits(k.v("x"), k.n - 1) & nonneg_bits(k.v("y"), k.n),
                      tags={"int", "reuse", "pow", "ss"}))
    ents.append(Entry("int_to_bits_default", lambda k: k.S("x").to_bits(), ("x",),
                      ref=lambda k: [(k.v("x") >> i) & 1 for i in range(k.n)],
                      dom=lambda k: nonneg_bits(k.v("x"), k.n), tags={"int", "bits", "to_bits"}))
    return ents


# ---------------------------------------------------------------------------------------- assertions

def make_asserts(n):
    ents = []
    rels = [("eq", op.eq), ("ne", op.ne), ("lt", op.lt), ("le", op.le), ("gt", op.gt), ("ge", op.ge)]
    for nm, f in rels:
        ents.append(Entry("assert_%s_ss" % nm,
                          (lambda k, nm=nm: _assert2(k, "assert_" + nm)), ("x", "y"),
                          ref=(lambda k, f=f: f(k.v("x"), k.v("y"))),
                          dom=(lambda k: fits(k.v("x"), k.n - 1) & fits(k.v("y"), k.n - 1)),
                          tags={"assert", nm, "ss"}))
        for c in (0, 3):
            ents.append(Entry("assert_%s_sc%d" % (nm, c),
                              (lambda k, nm=nm, c=c: _assert1(k, "assert_" + nm, c)), ("x",),
                              ref=(lambda k, f=f, c=c: f(k.v("x"), c)),
                              dom=(lambda k: fits(k.v("x"), k.n - 1)),
                              tags={"assert", nm, "sc"}))
    ents.append(Entry("assert_zero", lambda k: _assert0(k, "assert_zero"), ("x",), ref=lambda k: k.v("x") == 0,
                      dom=lambda k: fits(k.v("x"), k.n), tags={"assert", "zero"}))
    ents.append(Entry("assert_nonzero", lambda k: _assert0(k, "assert_nonzero"), ("x",), ref=lambda k: k.v("x") != 0,
                      dom=lambda k: fits(k.v("x"), k.n), tags={"assert", "nonzero"}))
    ents.append(Entry("assert_positive", lambda k: _assert0(k, "assert_positive"), ("x",),
                      ref=lambda k: nonneg_bits(k.v("x"), k.n),
                      dom=lambda k: fits(k.v("x"), k.n + 2), tags={"assert", "positive"}))
    for w in sorted(set([0, 1, 2, n - 1, n, n + 1])):
        ents.append(Entry("assert_positive_w%d" % w, (lambda k, w=w: _assertw(k, w)), ("x",),
                          ref=(lambda k, w=w: nonneg_bits(k.v("x"), w)),
                          dom=lambda k: fits(k.v("x"), k.n + 2), tags={"assert", "positive", "w=%d" % w}))
    # the same object decomposed twice (a cache on the object, if someone adds one, must not weaken the second use)
    ents.append(Entry("assert_positive_after_guarded_bits", lambda k: _reuse_guarded(k, 2), ("x", "g"),
                      ref=lambda k: nonneg_bits(k.v("x"), 2), dom=None,
                      assume=lambda k: [(k.v("g") == 0) | (k.v("g") == 1)], tags={"assert", "positive", "reuse"}))
    ents.append(Entry("assert_positive_after_wider_bits", lambda k: _reuse_wider(k, n + 1, 2), ("x",),
                      ref=lambda k: nonneg_bits(k.v("x"), 2), dom=None, tags={"assert", "positive", "reuse"}))
    ents.append(Entry("assert_positive_after_same_bits", lambda k: _reuse_wider(k, 3, 3), ("x",),
                      ref=lambda k: nonneg_bits(k.v("x"), 3), dom=None, tags={"assert", "positive", "reuse"}))
    ents.append(Entry("assert_range_cc", lambda k: _assert_range(k, 1, 5), ("x",),
                      ref=lambda k: (k.v("x") >= 1) & (k.v("x") < 5),
                      dom=lambda k: fits(k.v("x"), k.n - 1), tags={"assert", "range"}))
    ents.append(Entry("assert_range_ss", lambda k: _assert_range_s(k), ("x", "lo", "hi"),
                      ref=lambda k: (k.v("x") >= k.v("lo")) & (k.v("x") < k.v("hi")),
                      dom=lambda k: fits(k.v("x"), k.n - 1) & fits(k.v("lo"), k.n - 1) & fits(k.v("hi"), k.n - 1),
                      tags={"assert", "range"}))
    ents.append(Entry("decl_bool_priv", lambda k: [k.B("x")], ("x",), ref=lambda k: (k.v("x") == 0) | (k.v("x") == 1),
                      dom=lambda k: fits(k.v("x"), k.n), tags={"assert", "decl", "bool"}))
    ents.append(Entry("decl_bool_pub", lambda k: _decl_pub(k), ("x",),
                      ref=lambda k: (k.v("x") == 0) | (k.v("x") == 1),
                      dom=lambda k: fits(k.v("x"), k.n), tags={"assert", "decl", "bool"}))
    ents.append(Entry("decl_bool_lc", lambda k: [k.bo.LinCombBool(k.S("x"))], ("x",),
                      ref=lambda k: (k.v("x") == 0) | (k.v("x") == 1),
                      dom=lambda k: fits(k.v("x"), k.n), tags={"assert", "decl", "bool"}))
    # an integer wire declared boolean by *use*: handed to a logical operation with a boolean (both operand orders)
    uses = [("and", lambda b, x: b & x), ("rand", lambda b, x: x & b), ("or", lambda b, x: b | x), ("xor", lambda b, x: b ^ x),
            ("rxor", lambda b, x: x ^ b)]
    for nm, f in uses:
        ents.append(Entry("decl_bool_by_use_%s" % nm, (lambda k, f=f: [f(k.B("b"), k.S("x"))]), ("b", "x"),
                          ref=lambda k: (k.v("x") == 0) | (k.v("x") == 1),
                          assume=lambda k: [(k.v("b") == 0) | (k.v("b") == 1)],
                          dom=lambda k: fits(k.v("x"), k.n), tags={"assert", "decl", "bool", "use"}))
    ents.append(Entry("decl_bool_by_use_after_guarded_use", lambda k: _bool_use_twice(k), ("b", "x", "h"),
                      ref=lambda k: (k.v("x") == 0) | (k.v("x") == 1),
                      assume=lambda k: [(k.v("b") == 0) | (k.v("b") == 1), (k.v("h") == 0) | (k.v("h") == 1)],
                      dom=lambda k: fits(k.v("x"), k.n), tags={"assert", "decl", "bool", "use", "reuse"}))
    return ents


def _bool_use_twice(k):
    """the same integer wire used as a boolean first inside a guarded region, then outside it: the second use must still
    force it to be a bit"""
    b = k.B("b")
    x = k.S("x")
    h = k.S("h")            # (not "g": that name is the harness's own outer guard in C07)
    k.rt.guarded(h)(lambda: b & x)()
    return [b | x]


def _reuse_guarded(k, w):
    x = k.S("x")
    g = k.S("g")
    k.rt.guarded(g)(lambda: x.to_bits(w))()
    x.assert_positive(w)
    return [x, g]


def _reuse_wider(k, w1, w2):
    x = k.S("x")
    x.to_bits(w1)
    x.assert_positive(w2)
    return [x]


def _decl_pub(k):
    i = k._next("pub")
    b = k.bo.PubValBool(k.v("x"))
    k._rec("x", "pub", i)
    return [b]


def _assert2(k, meth):
    x = k.S("x"); y = k.S("y")
    getattr(x, meth)(y)
    return [x, y]


def _assert1(k, meth, c):
    x = k.S("x")
    getattr(x, meth)(c)
    return [x]


def _assert0(k, meth):
    x = k.S("x")
    getattr(x, meth)()
    return [x]


def _assertw(k, w):
    x = k.S("x")
    x.assert_positive(w)
    return [x]


def _assert_range(k, lo, hi):
    x = k.S("x")
    x.assert_range(lo, hi)
    return [x]


def _assert_range_s(k):
    x = k.S("x"); lo = k.S("lo"); hi = k.S("hi")
    x.assert_range(lo, hi)
    return [x, lo, hi]


# ---------------------------------------------------------------------------------------- booleans

BOOLOPS = [("and", op.and_), ("or", op.or_), ("xor", op.xor), ("eq", op.eq), ("ne", op.ne), ("lt", op.lt),
           ("le", op.le), ("gt", op.gt), ("ge", op.ge), ("add", op.add), ("sub", op.sub), ("mul", op.mul)]


def _isbit(v):
    return (v == 0) | (v == 1)


def make_bools():
    ents = []
    for nm, f in BOOLOPS:
        retb = nm in ("and", "or", "xor") or nm in CMP
        tg = {"bool", "binop", nm} | ({"ret:bool"} if retb else set())
        ents.append(Entry("bool_%s_bb" % nm, (lambda k, f=f: f(k.B("x"), k.B("y"))), ("x", "y"),
                          ref=(lambda k, f=f: f(k.v("x"), k.v("y"))),
                          dom=lambda k: _isbit(k.v("x")) & _isbit(k.v("y")), tags=tg | {"bb"}))
        ents.append(Entry("bool_%s_bs" % nm, (lambda k, f=f: f(k.B("x"), k.S("y"))), ("x", "y"),
                          ref=(lambda k, f=f: f(k.v("x"), k.v("y"))),
                          dom=lambda k: _isbit(k.v("x")) & _isbit(k.v("y")), tags=tg | {"bs"}))
        for c in (0, 1):
            ents.append(Entry("bool_%s_bc%d" % (nm, c), (lambda k, f=f, c=c: f(k.B("x"), c)), ("x",),
                              ref=(lambda k, f=f, c=c: f(k.v("x"), c)),
                              dom=lambda k: _isbit(k.v("x")), tags=tg | {"bc"}))
            ents.append(Entry("bool_%s_cb%d" % (nm, c), (lambda k, f=f, c=c: f(c, k.B("x"))), ("x",),
                              ref=(lambda k, f=f, c=c: f(c, k.v("x"))),
                              dom=lambda k: _isbit(k.v("x")), tags=tg | {"cb"}))
    ents.append(Entry("bool_not", lambda k: ~k.B("x"), ("x",), ref=lambda k: 1 - k.v("x"),
                      dom=lambda k: _isbit(k.v("x")), tags={"bool", "unop", "ret:bool"}))
    ents.append(Entry("bool_abs", lambda k: abs(k.B("x")), ("x",), ref=lambda k: abs(k.v("x")),
                      dom=lambda k: _isbit(k.v("x")), tags={"bool", "unop"}))
    ents.append(Entry("bool_pos", lambda k: +k.B("x"), ("x",), ref=lambda k: +k.v("x"),
                      dom=lambda k: _isbit(k.v("x")), tags={"bool", "unop", "ret:bool"}))
    ents.append(Entry("bool_check_zero", lambda k: k.B("x").check_zero(), ("x",), ref=lambda k: k.v("x") == 0,
                      dom=lambda k: _isbit(k.v("x")), tags={"bool", "check", "ret:bool"}))
    ents.append(Entry("bool_check_positive", lambda k: k.B("x").check_positive(), ("x",), ref=lambda k: k.v("x") >= 0,
                      dom=lambda k: _isbit(k.v("x")), tags={"bool", "check", "ret:bool"}))
    ents.append(Entry("bool_neg", lambda k: -k.B("x"), ("x",), ref=lambda k: -k.v("x"),
                      dom=lambda k: _isbit(k.v("x")), tags={"bool", "unop"}))
    for c in (0, 1, 3):
        ents.append(Entry("bool_pow_c%d" % c, (lambda k, c=c: k.B("x") ** c), ("x",),
                          ref=(lambda k, c=c: k.v("x") ** c),
                          dom=lambda k: _isbit(k.v("x")), tags={"bool", "pow", "ret:bool"}))
    ents.append(Entry("bool_if_else", lambda k: _mk3(k, lambda b, x, y: b.if_else(x, y)), ("c", "x", "y"),
                      ref=lambda k: _ref_sel(k), dom=lambda k: _isbit(k.v("c")), tags={"bool", "sel"}))
    return ents


# ---------------------------------------------------------------------------------------- selection / arrays

def _ite_vals(k):
    c = k.B("c"); x = k.S("x"); y = k.S("y")
    return k.br.if_then_else(c, x, y)


def _ite_cmp(k):
    x = k.S("x"); y = k.S("y")
    return k.br.if_then_else(x < y, x, y)


def _ite_list(k):
    c = k.B("c"); x = k.S("x"); y = k.S("y")
    return k.br.if_then_else(c, [x, 3], [4, y])


def _ite_const(k):
    c = k.B("c")
    return k.br.if_then_else(c, 5, 9)


def _ite_bool_int(k):
    c = k.B("c"); x = k.B("x"); y = k.S("y")
    return k.br.if_then_else(c, x, y)


def _ite_lazy(k):
    c = k.B("c"); x = k.S("x"); y = k.S("y")
    return k.br.if_then_else(c, lambda: x * y, lambda: x + y)


def make_sel():
    return [
        Entry("sel_ite", _ite_vals, ("c", "x", "y"), ref=_ref_sel, dom=lambda k: _isbit(k.v("c")), tags={"sel"}),
        Entry("sel_ite_cmp", _ite_cmp, ("x", "y"),
              ref=lambda k: k.v("y") + (k.v("x") < k.v("y")) * (k.v("x") - k.v("y")),
              dom=lambda k: fits(k.v("x"), k.n - 1) & fits(k.v("y"), k.n - 1), tags={"sel"}),
        Entry("sel_ite_list", _ite_list, ("c", "x", "y"),
              ref=lambda k: [4 + k.v("c") * (k.v("x") - 4), k.v("y") + k.v("c") * (3 - k.v("y"))],
              dom=lambda k: _isbit(k.v("c")), tags={"sel"}),
        Entry("sel_ite_const", _ite_const, ("c",), ref=lambda k: 9 + k.v("c") * (5 - 9),
              dom=lambda k: _isbit(k.v("c")), tags={"sel"}),
        Entry("sel_ite_plaincond1", lambda k: k.br.if_then_else(1, k.S("x"), k.S("y")), ("x", "y"), ref=lambda k: k.v("x"),
              dom=lambda k: fits(k.v("x"), k.n), tags={"sel"}),
        Entry("sel_ite_plaincond0", lambda k: k.br.if_then_else(0, k.S("x"), k.S("y")), ("x", "y"), ref=lambda k: k.v("y"),
              dom=lambda k: fits(k.v("x"), k.n), tags={"sel"}),
        Entry("sel_ite_fxp_mixed", lambda k: _ite_bool_int(k), ("c", "x", "y"),
              ref=lambda k: k.v("y") + k.v("c") * (k.v("x") - k.v("y")),
              dom=lambda k: _isbit(k.v("c")) & _isbit(k.v("x")), tags={"sel"}),
    ]


def _arr(k, ln, secret=True):
    names = ["a%d" % i for i in range(ln)]
    cells = [k.S(nm) for nm in names] if secret else [10 + 3 * i for i in range(ln)]
    return k.ar.Array(cells)


def _arr_ref_read(k, ln, secret=True):
    cells = [k.v("a%d" % i) for i in range(ln)] if secret else [10 + 3 * i for i in range(ln)]
    i = k.v("i")
    acc = 0
    for j in range(ln):
        acc = acc + (i == j) * cells[j]
    return acc


def make_arrays(maxlen=3):
    ents = []
    for ln in range(1, maxlen + 1):
        for secret in (True, False):
            sn = "s" if secret else "c"
            ins = tuple(["a%d" % j for j in range(ln)] if secret else []) + ("i",)
            ents.append(Entry("arr_read_%s%d" % (sn, ln),
                              (lambda k, ln=ln, secret=secret: _arr_read(k, ln, secret)), ins,
                              ref=(lambda k, ln=ln, secret=secret: _arr_ref_read(k, ln, secret)),
                              dom=(lambda k, ln=ln: (k.v("i") >= 0) & (k.v("i") < ln)),
                              tags={"arr", "read", "len=%d" % ln}))
        ins = tuple("a%d" % j for j in range(ln)) + ("i", "y")
        ents.append(Entry("arr_write_s%d" % ln, (lambda k, ln=ln: _arr_write(k, ln)), ins,
                          ref=(lambda k, ln=ln: [k.v("a%d" % j) + (k.v("i") == j) * (k.v("y") - k.v("a%d" % j))
                                                 for j in range(ln)]),
                          dom=(lambda k, ln=ln: (k.v("i") >= 0) & (k.v("i") < ln)),
                          tags={"arr", "write", "len=%d" % ln}))
    # several accesses to one array in one run (memo tables keyed by the index *value* or by the index *wires* only):
    # two index wires that may hold the same value; two affine functions of one index wire; a write between two reads
    def sel(k, cells, ix):
        acc = 0
        for j in range(len(cells)):
            acc = acc + (ix == j) * cells[j]
        return acc
    cells3 = lambda k: [k.v("a%d" % j) for j in range(3)]
    ents.append(Entry("arr_read_two_indices_s3", lambda k: (lambda A, i, j: [A[i], A[j]])(_arr(k, 3), k.S("i"), k.S("j")),
                      ("a0", "a1", "a2", "i", "j"), ref=lambda k: [sel(k, cells3(k), k.v("i")), sel(k, cells3(k), k.v("j"))],
                      dom=lambda k: (k.v("i") >= 0) & (k.v("i") < 3) & (k.v("j") >= 0) & (k.v("j") < 3), tags={"arr", "read", "len=3", "multi"}))
    ents.append(Entry("arr_read_affine_indices_s3", lambda k: (lambda A, i: [A[i + 1], A[i + 2], A[2 * i + 2]])(_arr(k, 3), k.S("i")),
                      ("a0", "a1", "a2", "i"),
                      ref=lambda k: [sel(k, cells3(k), k.v("i") + 1), sel(k, cells3(k), k.v("i") + 2), sel(k, cells3(k), 2 * k.v("i") + 2)],
                      dom=lambda k: (k.v("i") >= -1) & (k.v("i") <= 0), tags={"arr", "read", "len=3", "multi"}))
    def _rwr(k):
        A = _arr(k, 3); i = k.S("i"); j = k.S("j"); y = k.S("y")
        r0 = A[i]; A[j] = y
        return [r0, A[i]] + list(A.arr)
    def _rwr_ref(k):
        c = cells3(k); i, j, y = k.v("i"), k.v("j"), k.v("y")
        c2 = [c[t] + (j == t) * (y - c[t]) for t in range(3)]
        return [sel(k, c, i), sel(k, c2, i)] + c2
    ents.append(Entry("arr_read_write_read_s3", _rwr, ("a0", "a1", "a2", "i", "j", "y"), ref=_rwr_ref,
                      dom=lambda k: (k.v("i") >= 0) & (k.v("i") < 3) & (k.v("j") >= 0) & (k.v("j") < 3), tags={"arr", "write", "len=3", "multi"}))
    return ents


def _arr_read(k, ln, secret):
    A = _arr(k, ln, secret)
    i = k.S("i")
    return A[i]


def _arr_write(k, ln):
    A = _arr(k, ln, True)
    i = k.S("i"); y = k.S("y")
    A[i] = y
    return A.arr


# ---------------------------------------------------------------------------------------- compositions (depth 2)

def make_compositions():
    ents = []
    def E2(name, fn, ins, ref, dom=None):
        ents.append(Entry("cmp_" + name, fn, ins, ref=ref, dom=dom, tags={"comp"}))
    E2("mul_add", lambda k: k.S("x") * k.S("y") + k.S("z"), ("x", "y", "z"),
       lambda k: k.v("x") * k.v("y") + k.v("z"))
    E2("lt_mul", lambda k: (k.S("x") < k.S("y")) * k.S("x"), ("x", "y"),
       lambda k: (k.v("x") < k.v("y")) * k.v("x"))
    E2("abs_sub", lambda k: abs(k.S("x") - k.S("y")), ("x", "y"), lambda k: abs(k.v("x") - k.v("y")))
    E2("div_mul", lambda k: (k.S("x") / 3) * k.S("y"), ("x", "y"), lambda k: (k.v("x") // 3) * k.v("y"))
    E2("div_mul_eq", lambda k: ((k.S("x") / 3) * 3) == k.S("x"), ("x",), lambda k: (((k.v("x") // 3) * 3) == k.v("x")) | True)
    E2("fdiv_add", lambda k: k.S("x") // 3 + k.S("y"), ("x", "y"), lambda k: k.v("x") // 3 + k.v("y"))
    E2("mod_eq", lambda k: (k.S("x") % 3) == k.S("y"), ("x", "y"), lambda k: (k.v("x") % 3) == k.v("y"))
    E2("and_or", lambda k: (k.B("x") & k.B("y")) | k.B("z"), ("x", "y", "z"),
       lambda k: (k.v("x") & k.v("y")) | k.v("z"))
    E2("eq_and_lt", lambda k: (k.S("x") == k.S("y")) & (k.S("x") < k.S("z")), ("x", "y", "z"),
       lambda k: (k.v("x") == k.v("y")) & (k.v("x") < k.v("z")))
    E2("sq_sq", lambda k: (k.S("x") ** 2) ** 2, ("x",), lambda k: (k.v("x") ** 2) ** 2)
    E2("neg_rshift", lambda k: (-(k.S("x"))) >> 1, ("x",), lambda k: (-k.v("x")) >> 1)
    E2("ite_of_cmp", lambda k: _cmp_ite(k), ("x", "y", "z"),
       lambda k: k.v("z") + (k.v("x") <= k.v("y")) * (k.v("x") * k.v("y") - k.v("z")))
    E2("xor_bits", lambda k: k.S("x") ^ k.S("y"), ("x", "y"), lambda k: k.v("x") ^ k.v("y"))
    return ents


def _cmp_ite(k):
    x = k.S("x"); y = k.S("y"); z = k.S("z")
    return k.br.if_then_else(x <= y, x * y, z)


# ---------------------------------------------------------------------------------------- public API of this module

def build(n=4, tier="quick"):
    consts = [0, 3, -3] if tier == "quick" else [0, 1, 2, 3, -3, (1 << n) - 1]
    ents = []
    ents += make_int_binops(consts)
    ents += make_int_unops()
    ents += make_widths(n)
    ents += make_asserts(n)
    ents += make_bools()
    ents += make_sel()
    ents += make_arrays(3 if tier == "quick" else 4)
    ents += make_compositions()
    names = [e.name for e in ents]
    assert len(names) == len(set(names)), [x for x in names if names.count(x) > 1]
    return ents


def by_name(n=4, tier="thorough"):
    return {e.name: e for e in build(n, tier)}
