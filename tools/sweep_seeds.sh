#!/bin/sh
# re-confirm every stored seeded change against the current /repo and re-run its property's check (and the other checks
# recorded as catching it); rewrites seeded/*/meta.json.  Must not run while anything else modifies /repo.
cd /verif
for d in seeded/*/; do
  n=$(basename $d)
  p=$(python3 -c "import json;m=json.load(open('$d/meta.json'));print(' '.join(dict.fromkeys([m['property']]+list(m.get('checks_run',{}).keys()))))")
  python3 tools/keep_seed.py /verif/$d $n $p 2>&1 | tail -1
done
