"""C15: secret-index array access reads and writes exactly one element.
Per array program: value = list reference (C05 obligation), witness satisfies (C01), one canonical trace over all index
paths incl. out-of-range under ignore_errors (C06), result unique (C02), out-of-range index raises and is unprovable (C03)."""
from . import cat_c15 as CAT15
from . import common as C
from . import c01, c02, c03, c05, c06, c07

PID = "C15"
MODS = dict(value=c05, witness=c01, trace=c06, unique=c02, oob=c03, guard=c07)


def jobs(tier):
    js = []
    bound = 1 << 20
    for e in CAT15.build(4, tier):
        base = dict(entry=e.name, backend="snarkjs", tier=tier, pid=PID, catalogue="checks.cat_c15",
                    weight=len(e.ins))
        cfg = dict(n=4, r=2, guard=None, bound=bound)
        if "oob" in e.tags:
            js.append(dict(base, name="%s/oob" % e.name, analysis="oob", cfg=dict(cfg)))
            continue
        js.append(dict(base, name="%s/value" % e.name, analysis="value", cfg=dict(cfg)))
        js.append(dict(base, name="%s/witness" % e.name, analysis="witness", cfg=dict(cfg)))
        js.append(dict(base, name="%s/unique" % e.name, analysis="unique", cfg=dict(cfg)))
        if e.name in ("read_s2", "write_s2", "read2d_s", "write2d_s", "read_c3"):
            # under a secret guard: any index value (also far out of range) is inert when the guard is false; a true guard is
            # transparent
            js.append(dict(base, name="%s/guard" % e.name, analysis="guard", cfg=dict(cfg, guard="sym")))
        c1 = dict(cfg, want_ref=False)
        js.append(dict(base, name="%s/trace" % e.name, analysis="trace", cfg=c1,
                       cfgs=[c1, dict(c1, ignore=True)]))
    return js


def run_job(env, spec):
    return MODS[spec["analysis"]].run_job(env, spec)


def main(argv):
    tier = C.tier()
    rep = C.Report(PID)
    rep.functions |= {"pysnark.array.Array.__getitem__", "pysnark.array.Array.__setitem__", "pysnark.array.ArrayRow",
                      "pysnark.linalg.lin_comb", "pysnark.branching.if_then_else", "LinComb.__eq__/check_zero/assert_eq"}
    rep.bounds = dict(lengths="1..3 (quick) / 1..4 (thorough)", shapes="1-D, 2x2", sequences="<= 2 (quick) / <= 3 (thorough) operations",
                      contents="secret cells and pairwise distinct constants", index_and_cell_magnitude="< 2^20", bitlength=4)
    rep.assumptions = ["constant cells are pairwise distinct objects (if_then_else short-circuits on object identity)",
                       "value independence is judged over errors-on and ignore_errors paths pooled"]
    js = jobs(tier)
    if argv:
        js = [j for j in js if any(a in j["name"] for a in argv)]
    for r in C.run_jobs("c15", js):
        rep.absorb(r)
    return rep.finish("./check C15")
