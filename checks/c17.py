"""C17: a @snark function exposes exactly its arguments and results as public values."""
from . import cat_c17 as CAT17
from . import common as C
from .obsjob import run_obs_job
from .catjob import lookup

PID = "C17"


def jobs(tier):
    return [dict(name=e.name, entry=e.name, backend="snarkjs", cfg=dict(n=8, r=2, guard=None, bound=1 << 64), tier=tier,
                 catalogue="checks.cat_c17", pid=PID, weight=1) for e in CAT17.build(8, tier)]


def run_job(env, spec):
    return run_obs_job(PID, env, spec, lookup(spec), "checks.cat_c17")


def main(argv):
    tier = C.tier()
    rep = C.Report(PID)
    rep.functions |= {"pysnark.runtime.snark / for_each_in", "LinComb.val / LinCombFxp.val / LinCombBool.val", "PubVal / PubValFxp / PubValBool"}
    rep.bounds = dict(programs=sorted(CAT17.PROGRAMS), structures="int/float leaves in lists, tuples, dicts, nesting <= 2, <= 4 leaves",
                      calls_per_run="<= 3", values="symbolic < 2^64; floats are dyadic constants")
    rep.assumptions = ["public-vector order and tying constraints are structural (per program); values are symbolic"]
    js = jobs(tier)
    if argv:
        js = [j for j in js if any(a in j["name"] for a in argv)]
    for r in C.run_jobs("c17", js):
        rep.absorb(r)
    return rep.finish("./check C17")
