"""C10: the snarkjs files encode exactly the traced circuit and a valid witness."""
from . import cat_c10 as CAT10
from . import common as C
from .obsjob import run_obs_job
from .catjob import lookup

PID = "C10"


def jobs(tier):
    js = []
    for e in CAT10.build(8, tier):
        bounds = [None] if tier == "quick" else [None, 1 << 64]
        for b in bounds:
            if "cmp" in e.name and b is None:
                b = 1 << 64
            js.append(dict(name="%s/%s" % (e.name, "unbounded" if b is None else "b64"), entry=e.name, backend="snarkjs",
                           cfg=dict(n=8, r=2, guard=None, bound=b), tier=tier, catalogue="checks.cat_c10", pid=PID, weight=1))
    return js


def run_job(env, spec):
    return run_obs_job(PID, env, spec, lookup(spec), "checks.cat_c10")


def main(argv):
    tier = C.tier()
    rep = C.Report(PID)
    rep.functions |= {"pysnark.snarkjsbackend.prove (both writers, writefac, wwriteval/cwriteval)", "pysnark.snarkjsbackend.privval/pubval/add_constraint"}
    rep.bounds = dict(programs=sorted(CAT10.PROGRAMS), values="symbolic, unbounded integers (negative, >= p, wider than 256 bits)",
                      decoder="independent reader of .r1cs v1 / .wtns v2 written for this check")
    rep.assumptions = ["a file is the concatenation of the chunks written (open/bytes of the backend module are captured)",
                       "byte extraction (v >> 8j) & 255 is characterised exactly by base-256 digit skolems",
                       "nLabels is informational and not constrained"]
    js = jobs(tier)
    if argv:
        js = [j for j in js if any(a in j["name"] for a in argv)]
    for r in C.run_jobs("c10", js):
        rep.absorb(r)
    return rep.finish("./check C10")
