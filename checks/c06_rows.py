"""C06 process rows (no z3 import): the same program traced in several interpreters that differ only in their string hash
seed must record the same constraint system -- iteration over a set (or a dict built from one) of variable names makes the
order of the merge constraints depend on PYTHONHASHSEED, which no in-process comparison can see."""
import json
import os
import re
import shutil
import subprocess
import tempfile
from concurrent.futures import ThreadPoolExecutor

from . import common as C

SCRIPT = r'''
import json, sys
import pysnark.runtime as rt
rt.autoprove = False
from pysnark.runtime import PrivVal, PubVal
from pysnark.branching import BranchingValues, _if, _elif, _else, _endif, _while, _endwhile, _breakif, _range, _endfor, if_then_else
import pysnark.snarkjsbackend as be
c, x = %(c)d, %(x)d
_ = BranchingValues()
_.alpha = PrivVal(x); _.beta = 3; _.gamma = PrivVal(x) * 2; _.delta = 0; _.epsilon = [1, 2]
if _if(PrivVal(c), ctx=_):
    _.alpha = _.alpha + 1; _.gamma = _.gamma * _.alpha; _.delta = 5; _.epsilon[1] = _.gamma; _.beta = _.beta + _.delta
if _else(ctx=_):
    _.delta = _.alpha * _.alpha; _.beta = 4; _.alpha = _.gamma; _.epsilon[0] = _.delta
_endif(ctx=_)
i = 0
while _while(PrivVal(1 if i < c + 1 else 0), ctx=_) and i < 3:
    _.beta = _.beta + _.alpha; _.delta = _.delta + 1; _.gamma = _.gamma + _.beta
    i += 1
_endwhile(ctx=_)
for j in _range(PrivVal(c + 1), max=2, ctx=_):
    _.alpha = _.alpha + j; _.delta = _.delta * 2; _.beta = _.beta + 1
_endfor(ctx=_)
res = [_.alpha, _.beta, _.gamma, _.delta] + _.epsilon
P = be.get_modulus()
norm = lambda lc: sorted((k, v %% P) for k, v in lc.lc.items() if v %% P)
out = dict(npub=len(be.pubvals), npriv=len(be.privvals), cons=[[norm(a), norm(b), norm(cc)] for a, b, cc in be.constraints],
           res=[norm(r.lc) if hasattr(r, "lc") else r for r in res])
print("RESULT " + json.dumps(out))
'''
SEEDS = ["0", "1", "2", "3", "4242", "99991"]
INPUTS = [(1, 5), (0, 5)]


def run_row(args):
    (c, x), seed = args
    d = tempfile.mkdtemp(prefix="verif_c06_")
    try:
        env = dict(os.environ)
        env["PYTHONPATH"] = C.REPO
        env["PYSNARK_BACKEND"] = "snarkjs"
        env["PYTHONHASHSEED"] = seed
        open(os.path.join(d, "s.py"), "w").write(SCRIPT % dict(c=c, x=x))
        p = subprocess.run([C.REPLAY_PY, "s.py"], cwd=d, env=env, capture_output=True, text=True, timeout=120)
        m = re.search(r"RESULT (.*)", p.stdout)
        return dict(inputs=[c, x], seed=seed, out=(json.loads(m.group(1)) if m else None), err=p.stderr[-300:])
    finally:
        shutil.rmtree(d, ignore_errors=True)


def differing(results):
    """pairs (reference row, row) whose recorded systems differ; the reference is the first row"""
    ref = results[0]
    bad = []
    for r in results[1:]:
        if r["out"] is None or ref["out"] is None:
            bad.append((ref, r, "a run did not complete: %s" % (r["err"] or ref["err"])))
        elif r["out"] != ref["out"]:
            what = "variable counts" if (r["out"]["npub"], r["out"]["npriv"]) != (ref["out"]["npub"], ref["out"]["npriv"]) else (
                "constraints" if r["out"]["cons"] != ref["out"]["cons"] else "result wire expressions")
            bad.append((ref, r, "%s differ" % what))
    return bad


def part_b(rep, tier, known):
    rows = [(inp, s) for inp in INPUTS for s in (SEEDS if tier != "quick" else SEEDS[:4])]
    with ThreadPoolExecutor(max_workers=12) as ex:
        results = list(ex.map(run_row, rows))
    rep.obligations += len(results) - 1
    bad = differing(results)
    rep.discharged += len(results) - 1 - len(bad)
    for ref, r, why in bad[:3]:
        rep.findings.append(dict(what="block-API program traced on inputs %s (hash seed %s) and %s (hash seed %s): %s" % (
            ref["inputs"], ref["seed"], r["inputs"], r["seed"], why), known=None,
            replay=dict(kind="ext:c06", module="checks.c06_rows", rows=[[ref["inputs"], ref["seed"]], [r["inputs"], r["seed"]]])))
    rep.extra["process_rows"] = len(results)
    rep.extra["hash_seeds"] = SEEDS if tier != "quick" else SEEDS[:4]


def replay(spec, yes, no):
    rs = [run_row((tuple(i), s)) for i, s in spec["rows"]]
    bad = differing(rs)
    if bad:
        yes("inputs %s / hash seed %s vs inputs %s / hash seed %s: %s" % (rs[0]["inputs"], rs[0]["seed"], rs[1]["inputs"], rs[1]["seed"], bad[0][2]))
    no("both interpreters record the same system")
