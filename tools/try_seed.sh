#!/bin/sh
# usage: tools/try_seed.sh <patch.diff> <Cxx> [<Cyy> ...]   -- apply a seeded change to /repo, run checks, undo
P="$1"; shift
cd /repo || exit 9
git apply --check "$P" 2>/dev/null || { echo "PATCH DOES NOT APPLY: $P"; exit 9; }
git apply "$P"
cd /verif
for c in "$@"; do
  ./check "$c" --tier "${TIER:-quick}" > /tmp/try_$c.out 2>/tmp/try_$c.err
  rc=$?
  echo "== $c rc=$rc: $(grep -c '^VIOLATION' /tmp/try_$c.out) violation(s); $(tail -1 /tmp/try_$c.out | cut -c1-200)"
  grep -A1 '^VIOLATION' /tmp/try_$c.out | grep '^  ' | head -3 | cut -c1-220
  grep HARNESS-ERROR /tmp/try_$c.err | head -2 | cut -c1-220
done
git -C /repo checkout -- .
